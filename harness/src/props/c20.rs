//! C20 — actor identities are unique, stable and derived as specified.
//! Real init + EAM + EVM + power + account/placeholder/ethaccount actors in the vvm ⇄ Lean model
//! "init" (`BA.Init`, `BA.Eam`), plus an independent oracle on the real state after every message.
use super::{RunCfg, hash_lines, seq_rng};
use crate::lean::LeanDriver;
use crate::report::{Disagreement, Report, Violation, write_replay};
use crate::rng::Rng;
use crate::vvm::TEST_FAUCET_ADDR;
use crate::world::{Applied, World, exit_class};
use cid::Cid;
use fil_actors_runtime::runtime::builtins::Type;
use fil_actors_runtime::test_utils::*;
use fil_actors_runtime::{EAM_ACTOR_ADDR, INIT_ACTOR_ADDR, STORAGE_POWER_ACTOR_ADDR};
use fvm_ipld_encoding::ipld_block::IpldBlock;
use fvm_ipld_encoding::{CborStore, RawBytes};
use fvm_shared::address::{Address, Payload};
use fvm_shared::crypto::hash::SupportedHashes;
use fvm_shared::econ::TokenAmount;
use fvm_shared::sector::RegisteredPoStProof;
use fvm_shared::{METHOD_CONSTRUCTOR, METHOD_SEND};
use multihash_codetable::{Code, MultihashDigest};
use serde_json::json;
use std::cell::RefCell;
use std::collections::{BTreeMap, HashMap, HashSet};
use vm_api::VM;
use vm_api::trace::InvocationTrace;

const EAM_ID: u64 = 10;
const INIT_ID: u64 = 1;
const POWER_ID: u64 = 4;
/// the first id the init actor may hand out, as the property states it
const SPEC_FIRST_ID: u64 = 100;

// ---------------------------------------------------------------- independent hash / RLP / ranges

fn keccak(data: &[u8]) -> Vec<u8> {
    Code::Keccak256.digest(data).digest().to_vec()
}

/// RLP of [addr20, nonce] written from the Ethereum yellow paper, not from the EAM's code
fn rlp_addr_nonce(addr: &[u8], nonce: u64) -> Vec<u8> {
    let mut payload = vec![0x80 + addr.len() as u8];
    payload.extend_from_slice(addr);
    let be: Vec<u8> = nonce.to_be_bytes().iter().cloned().skip_while(|b| *b == 0).collect();
    if be.is_empty() {
        payload.push(0x80);
    } else if be.len() == 1 && be[0] < 0x80 {
        payload.push(be[0]);
    } else {
        payload.push(0x80 + be.len() as u8);
        payload.extend_from_slice(&be);
    }
    let mut out = vec![0xc0 + payload.len() as u8];
    out.extend_from_slice(&payload);
    out
}

fn spec_create_addr(deployer: &[u8], nonce: u64) -> Vec<u8> {
    keccak(&rlp_addr_nonce(deployer, nonce))[12..].to_vec()
}

fn spec_create2_addr(deployer: &[u8], salt: &[u8], initcode: &[u8]) -> Vec<u8> {
    let mut pre = vec![0xffu8];
    pre.extend_from_slice(deployer);
    pre.extend_from_slice(salt);
    pre.extend_from_slice(&keccak(initcode));
    keccak(&pre)[12..].to_vec()
}

/// the reserved ranges as the property states them: ID-masked `0xff ‖ 0¹¹ ‖ id`, the
/// precompile ranges `0x00 ‖ 0¹⁸ ‖ x` and `0xfe ‖ 0¹⁸ ‖ x` (which contain the null address)
fn spec_reserved(a: &[u8]) -> bool {
    if a.len() != 20 {
        return false;
    }
    let id_masked = a[0] == 0xff && a[1..12].iter().all(|b| *b == 0);
    let precompile = (a[0] == 0x00 || a[0] == 0xfe) && a[1..19].iter().all(|b| *b == 0);
    let null = a.iter().all(|b| *b == 0);
    id_masked || precompile || null
}

fn id_masked(id: u64) -> Vec<u8> {
    let mut v = vec![0u8; 20];
    v[0] = 0xff;
    v[12..].copy_from_slice(&id.to_be_bytes());
    v
}

// scripted hash: models an attacker who found a pre-image that hashes into a chosen range
thread_local! {
    static HASH_SCRIPT: RefCell<Vec<(Vec<u8>, Vec<u8>)>> = const { RefCell::new(Vec::new()) };
}

fn scripted_hash(h: SupportedHashes, data: &[u8]) -> Vec<u8> {
    if matches!(h, SupportedHashes::Keccak256) {
        let hit = HASH_SCRIPT.with(|s| {
            s.borrow().iter().find(|(pre, _)| pre.as_slice() == data).map(|(_, out)| out.clone())
        });
        if let Some(out) = hit {
            return out;
        }
    }
    let hasher = Code::try_from(h as u64).unwrap();
    hasher.digest(data).digest().to_owned()
}

// ---------------------------------------------------------------- EVM byte code

mod op {
    pub const SUB: u8 = 0x03;
    pub const LT: u8 = 0x10;
    pub const EQ: u8 = 0x14;
    pub const AND: u8 = 0x16;
    pub const CALLDATALOAD: u8 = 0x35;
    pub const CALLDATASIZE: u8 = 0x36;
    pub const CALLDATACOPY: u8 = 0x37;
    pub const CODECOPY: u8 = 0x39;
    pub const POP: u8 = 0x50;
    pub const MSTORE: u8 = 0x52;
    pub const JUMP: u8 = 0x56;
    pub const JUMPI: u8 = 0x57;
    pub const JUMPDEST: u8 = 0x5b;
    pub const PUSH1: u8 = 0x60;
    pub const PUSH2: u8 = 0x61;
    pub const PUSH20: u8 = 0x73;
    pub const DUP1: u8 = 0x80;
    pub const DUP2: u8 = 0x81;
    pub const SWAP1: u8 = 0x90;
    pub const CREATE: u8 = 0xf0;
    pub const RETURN: u8 = 0xf3;
    pub const CREATE2: u8 = 0xf5;
    pub const REVERT: u8 = 0xfd;
    pub const INVALID: u8 = 0xfe;
    pub const SELFDESTRUCT: u8 = 0xff;
}

enum Asm {
    Op(u8),
    P1(u8),
    PL(&'static str),
    L(&'static str),
}

fn assemble(items: &[Asm]) -> Vec<u8> {
    let mut pos = HashMap::new();
    let mut pc = 0usize;
    for it in items {
        match it {
            Asm::Op(_) => pc += 1,
            Asm::P1(_) => pc += 2,
            Asm::PL(_) => pc += 3,
            Asm::L(n) => {
                pos.insert(*n, pc);
                pc += 1;
            }
        }
    }
    let mut out = vec![];
    for it in items {
        match it {
            Asm::Op(o) => out.push(*o),
            Asm::P1(v) => {
                out.push(op::PUSH1);
                out.push(*v);
            }
            Asm::PL(n) => {
                let p = pos[n];
                out.push(op::PUSH2);
                out.push((p >> 8) as u8);
                out.push(p as u8);
            }
            Asm::L(_) => out.push(op::JUMPDEST),
        }
    }
    out
}

/// The "agent" contract.  Call data: word0 = mode, word1 = endowment (mode 2: beneficiary),
/// word2 = salt, then the init code.  mode 0 CREATE, 1 CREATE2, 2 SELFDESTRUCT,
/// 4 CREATE then REVERT, 5 CREATE2 then REVERT.  Returns the word the opcode pushed.
fn agent_runtime() -> Vec<u8> {
    use Asm::*;
    use op::*;
    assemble(&[
        P1(0), Op(CALLDATALOAD),                        // [mode]
        Op(DUP1), P1(2), Op(EQ), PL("sd"), Op(JUMPI),   // [mode]
        P1(0x60), Op(CALLDATASIZE), Op(SUB),            // [mode,size]
        Op(DUP1), P1(0x60), P1(0), Op(CALLDATACOPY),    // [mode,size]
        Op(DUP2), P1(1), Op(AND), PL("c2"), Op(JUMPI),  // [mode,size]
        P1(0), P1(0x20), Op(CALLDATALOAD), Op(CREATE),  // [mode,addr]
        PL("done"), Op(JUMP),
        L("c2"),                                        // [mode,size]
        P1(0x40), Op(CALLDATALOAD), Op(SWAP1),          // [mode,salt,size]
        P1(0), P1(0x20), Op(CALLDATALOAD), Op(CREATE2), // [mode,addr]
        L("done"),
        P1(0), Op(MSTORE),                              // [mode]
        P1(3), Op(LT), PL("rev"), Op(JUMPI),            // 3 < mode
        P1(0x20), P1(0), Op(RETURN),
        L("rev"), P1(0x20), P1(0), Op(REVERT),
        L("sd"), P1(0x20), Op(CALLDATALOAD), Op(SELFDESTRUCT),
    ])
}

fn p2(v: usize) -> [u8; 3] {
    [op::PUSH2, (v >> 8) as u8, v as u8]
}

#[derive(Clone, Copy, Debug, PartialEq, Eq, Hash)]
enum InitKind {
    Empty,
    Agent(u8),
    Revert,
    Invalid,
    SelfDestruct,
    /// the constructor CREATEs a child agent, then returns the agent runtime
    NestedAgent(u8),
    /// the constructor CREATEs a child whose constructor reverts, then returns the agent runtime
    NestedChildReverts,
    /// the constructor CREATEs a child agent and then reverts
    NestedThenRevert,
}

impl InitKind {
    fn ctor(self) -> &'static str {
        match self {
            InitKind::Revert | InitKind::Invalid | InitKind::NestedThenRevert => "fail",
            InitKind::SelfDestruct => "sd",
            _ => "ok",
        }
    }
    fn is_agent(self) -> bool {
        matches!(self, InitKind::Agent(_) | InitKind::NestedAgent(_) | InitKind::NestedChildReverts)
    }
    /// (child init kind) of the CREATE executed inside the constructor
    fn nested(self) -> Option<InitKind> {
        match self {
            InitKind::NestedAgent(j) => Some(InitKind::Agent(j)),
            InitKind::NestedChildReverts => Some(InitKind::Revert),
            InitKind::NestedThenRevert => Some(InitKind::Agent(0)),
            _ => None,
        }
    }
    fn code(self, beneficiary: u64) -> Vec<u8> {
        use op::*;
        let rt = agent_runtime();
        match self {
            InitKind::Empty => vec![],
            InitKind::Revert => vec![PUSH1, 0, PUSH1, 0, REVERT],
            InitKind::Invalid => vec![INVALID],
            InitKind::SelfDestruct => {
                let mut v = vec![PUSH20];
                v.extend_from_slice(&id_masked(beneficiary));
                v.push(SELFDESTRUCT);
                v
            }
            InitKind::Agent(j) => {
                // PUSH2 len DUP1 PUSH2 off PUSH1 0 CODECOPY PUSH1 0 RETURN ‖ runtime ‖ junk
                let off = 13;
                let mut v = vec![];
                v.extend_from_slice(&p2(rt.len()));
                v.push(DUP1);
                v.extend_from_slice(&p2(off));
                v.extend_from_slice(&[PUSH1, 0, CODECOPY, PUSH1, 0, RETURN]);
                assert_eq!(v.len(), off);
                v.extend_from_slice(&rt);
                v.extend(std::iter::repeat_n(0xaa, j as usize));
                v
            }
            InitKind::NestedAgent(_) | InitKind::NestedChildReverts | InitKind::NestedThenRevert => {
                let child = self.nested().unwrap().code(beneficiary);
                // copy child to memory 0, CREATE it, drop the result, then return the runtime / revert
                let head_len = 3 + 3 + 2 + 1 + 3 + 2 + 2 + 1 + 1;
                let tail: Vec<u8> = if self == InitKind::NestedThenRevert {
                    vec![PUSH1, 0, PUSH1, 0, REVERT]
                } else {
                    let mut t = vec![];
                    t.extend_from_slice(&p2(rt.len()));
                    t.push(DUP1);
                    t.extend_from_slice(&[PUSH2, 0, 0]); // patched below
                    t.extend_from_slice(&[PUSH1, 0, CODECOPY, PUSH1, 0, RETURN]);
                    t
                };
                let code_len = head_len + tail.len();
                let rt_off = code_len;
                let child_off = code_len + rt.len();
                let mut v = vec![];
                v.extend_from_slice(&p2(child.len()));
                v.extend_from_slice(&p2(child_off));
                v.extend_from_slice(&[PUSH1, 0, CODECOPY]);
                v.extend_from_slice(&p2(child.len()));
                v.extend_from_slice(&[PUSH1, 0, PUSH1, 0, CREATE, POP]);
                assert_eq!(v.len(), head_len);
                let mut t = tail;
                if self != InitKind::NestedThenRevert {
                    t[5] = (rt_off >> 8) as u8;
                    t[6] = rt_off as u8;
                }
                v.extend_from_slice(&t);
                v.extend_from_slice(&rt);
                v.extend_from_slice(&child);
                v
            }
        }
    }
}

fn word(v: u128) -> [u8; 32] {
    let mut w = [0u8; 32];
    w[16..].copy_from_slice(&v.to_be_bytes());
    w
}

// ---------------------------------------------------------------- projection of the real state

#[derive(Clone, Debug, PartialEq)]
struct ActP {
    kind: &'static str,
    code: Cid,
    deleg: Option<(u64, Vec<u8>)>,
    nonce: u64,
    tomb: Option<(u64, u64)>,
    key: Vec<u8>,
    balance: TokenAmount,
    sequence: u64,
}

#[derive(Clone, Debug, Default)]
struct Proj {
    next: u64,
    map: BTreeMap<Vec<u8>, u64>,
    acts: BTreeMap<u64, ActP>,
}

fn kind_name(t: Option<&Type>) -> &'static str {
    match t {
        Some(Type::System) => "system",
        Some(Type::Init) => "init",
        Some(Type::Reward) => "reward",
        Some(Type::Cron) => "cron",
        Some(Type::Power) => "power",
        Some(Type::Market) => "market",
        Some(Type::VerifiedRegistry) => "verifreg",
        Some(Type::DataCap) => "datacap",
        Some(Type::EAM) => "eam",
        Some(Type::Account) => "account",
        Some(Type::Placeholder) => "placeholder",
        Some(Type::EthAccount) => "ethaccount",
        Some(Type::EVM) => "evm",
        Some(Type::Multisig) => "multisig",
        Some(Type::PaymentChannel) => "paych",
        Some(Type::Miner) => "miner",
        None => "unknown",
    }
}

fn hexs(b: &[u8]) -> String {
    if b.is_empty() { "-".into() } else { hex::encode(b) }
}

fn project(w: &World) -> Proj {
    let st: fil_actor_init::State = vm_api::util::get_state(&w.vm, &INIT_ACTOR_ADDR).unwrap();
    let mut map = BTreeMap::new();
    let am = fil_actors_runtime::Map2::<_, Address, u64>::load(
        w.vm.store.as_ref(),
        &st.address_map,
        fil_actors_runtime::DEFAULT_HAMT_CONFIG,
        "addresses",
    )
    .unwrap();
    am.for_each(|k, v| {
        map.insert(k.to_bytes(), *v);
        Ok(())
    })
    .unwrap();
    let mut acts = BTreeMap::new();
    for (addr, a) in w.vm.actor_states() {
        let id = addr.id().unwrap();
        let ty = ACTOR_TYPES.get(&a.code);
        let deleg = a.delegated_address.and_then(|d| match d.payload() {
            Payload::Delegated(d) => Some((d.namespace(), d.subaddress().to_vec())),
            _ => None,
        });
        let (mut nonce, mut tomb, mut key) = (0, None, vec![]);
        if ty == Some(&Type::EVM) {
            if let Ok(Some(es)) = w.vm.store.get_cbor::<fil_actor_evm::State>(&a.state) {
                nonce = es.nonce;
                tomb = es.tombstone.map(|t| (t.origin, t.nonce));
            }
        }
        if ty == Some(&Type::Account) {
            if let Ok(Some(s)) = w.vm.store.get_cbor::<fil_actor_account::State>(&a.state) {
                key = s.address.to_bytes();
            }
        }
        acts.insert(
            id,
            ActP { kind: kind_name(ty), code: a.code, deleg, nonce, tomb, key, balance: a.balance, sequence: a.sequence },
        );
    }
    Proj { next: st.next_id, map, acts }
}

fn show(p: &Proj, msg_of: &HashMap<(u64, u64), u64>) -> String {
    let m: Vec<String> = {
        let mut v: Vec<String> = p.map.iter().map(|(k, v)| format!("{}:{}", hex::encode(k), v)).collect();
        v.sort();
        v
    };
    let acts: Vec<String> = p
        .acts
        .iter()
        .map(|(id, a)| {
            let d = match &a.deleg {
                Some((ns, sub)) => format!("{}.{}", ns, hexs(sub)),
                None => "-".into(),
            };
            let t = match a.tomb {
                Some(k) => msg_of.get(&k).map(|m| m.to_string()).unwrap_or_else(|| "?".into()),
                None => "-".into(),
            };
            format!("{}:{}:{}:{}:{}:{}", id, a.kind, d, a.nonce, t, hexs(&a.key))
        })
        .collect();
    let j = |v: Vec<String>| if v.is_empty() { "-".to_string() } else { v.join(",") };
    format!("next={} map={} act={}", p.next, j(m), j(acts))
}

// ---------------------------------------------------------------- environment of one sequence

struct Agent {
    id: u64,
    eth: Vec<u8>,
}

/// how a contract was deployed through CREATE2 (to redo it after a self-destruct)
#[derive(Clone)]
struct C2Recipe {
    deployer: u64,
    salt: [u8; 32],
    kind: InitKind,
    id: u64,
}

struct Env {
    w: World,
    msg: u64,
    msg_of: HashMap<(u64, u64), u64>,
    accounts: Vec<(Address, Address)>,
    agents: Vec<Agent>,
    /// f410 addresses that were funded as placeholders (eth bytes)
    placeholders: Vec<Vec<u8>>,
    recipes: Vec<C2Recipe>,
    synth: u64,
    /// ids handed out as *new* so far, in order
    fresh_log: Vec<u64>,
    faucet_id: u64,
}

struct Sent {
    res: Applied,
    trace: Option<InvocationTrace>,
    msg: u64,
    from_id: u64,
    seq: u64,
}

impl Env {
    fn synth_robust(&mut self) -> Vec<u8> {
        self.synth += 1;
        let mut v = vec![2u8, 0xee, 0xee, 0xee, 0xee];
        v.extend_from_slice(&[0u8; 8]);
        v.extend_from_slice(&self.synth.to_be_bytes());
        v
    }

    fn send(&mut self, from: &Address, to: &Address, value: &TokenAmount, method: u64, params: Option<IpldBlock>) -> Sent {
        let from_id = self.w.vm.resolve_id_address(from).unwrap().id().unwrap();
        let seq = self.w.vm.actor(&Address::new_id(from_id)).unwrap().sequence;
        self.msg += 1;
        self.msg_of.insert((from_id, seq), self.msg);
        let _ = self.w.take_trace();
        let res = self.w.apply_raw(from, to, value, method, params);
        let mut tr = self.w.take_trace();
        Sent { res, trace: tr.pop(), msg: self.msg, from_id, seq }
    }
}

#[derive(Debug)]
struct EamCall {
    /// 0: the top-level message itself is the EAM call
    depth: u32,
    from: u64,
    method: u64,
    ok: bool,
    params: Option<IpldBlock>,
    ret: Option<fil_actor_eam::Return>,
}

/// EAM calls of a message in execution order, skipping everything inside rolled-back frames
fn eam_calls(t: &InvocationTrace, out: &mut Vec<EamCall>) {
    eam_calls_at(t, 0, out)
}

fn eam_calls_at(t: &InvocationTrace, depth: u32, out: &mut Vec<EamCall>) {
    let ok = t.exit_code.is_success();
    if t.to == EAM_ACTOR_ADDR && (2..=4).contains(&t.method) {
        let ret = if ok { t.return_value.as_ref().and_then(|r| r.deserialize().ok()) } else { None };
        out.push(EamCall { depth, from: t.from, method: t.method, ok, params: t.params.clone(), ret });
    }
    if ok {
        for s in &t.subinvocations {
            eam_calls_at(s, depth + 1, out);
        }
    }
}

/// exit status of the first constructor call made by the init actor (None: none was made)
fn ctor_status(t: &InvocationTrace) -> Option<bool> {
    if t.from == INIT_ID && t.method == METHOD_CONSTRUCTOR {
        return Some(t.exit_code.is_success());
    }
    for s in &t.subinvocations {
        if let Some(x) = ctor_status(s) {
            return Some(x);
        }
    }
    None
}

struct Line {
    text: String,
    /// expected answer ("ok <id> <eth>" / "err"); None: not compared
    expect: String,
}

fn ok_line(id: Option<u64>, eth: Option<&[u8]>) -> String {
    format!(
        "ok {} {}",
        id.map(|i| i.to_string()).unwrap_or_else(|| "-".into()),
        eth.map(hexs).unwrap_or_else(|| "-".into())
    )
}

// ---------------------------------------------------------------- actions

#[derive(Clone, Debug)]
enum Act {
    Exec { caller: Address, code: &'static str, good: bool },
    Exec4 { caller: Address, sub: Vec<u8>, code: &'static str, kind: InitKind },
    EamCreate { caller: Address, nonce: u64, kind: InitKind },
    EamCreate2 { caller: Address, salt: [u8; 32], kind: InitKind, forced: Option<Vec<u8>> },
    CreateExternal { caller: Address, kind: InitKind },
    AgentCreate { agent: u64, mode: u8, endow: u128, value: u128, salt: [u8; 32], kind: InitKind },
    SelfDestruct { agent: u64 },
    CreateMiner { caller: usize, value: u64 },
    SendKey { addr: Address },
    SendDeleg { ns: u64, sub: Vec<u8> },
    /// fund the f410 address a later CREATE2 (deployer, salt, init code) will produce
    SendFuture { sub: Vec<u8>, deployer: u64, salt: [u8; 32], kind: InitKind },
}

fn code_cid(name: &str) -> Cid {
    match name {
        "system" => *SYSTEM_ACTOR_CODE_ID,
        "init" => *INIT_ACTOR_CODE_ID,
        "reward" => *REWARD_ACTOR_CODE_ID,
        "cron" => *CRON_ACTOR_CODE_ID,
        "power" => *POWER_ACTOR_CODE_ID,
        "market" => *MARKET_ACTOR_CODE_ID,
        "verifreg" => *VERIFREG_ACTOR_CODE_ID,
        "datacap" => *DATACAP_TOKEN_ACTOR_CODE_ID,
        "eam" => *EAM_ACTOR_CODE_ID,
        "account" => *ACCOUNT_ACTOR_CODE_ID,
        "placeholder" => *PLACEHOLDER_ACTOR_CODE_ID,
        "ethaccount" => *ETHACCOUNT_ACTOR_CODE_ID,
        "evm" => *EVM_ACTOR_CODE_ID,
        "multisig" => *MULTISIG_ACTOR_CODE_ID,
        "paych" => *PAYCH_ACTOR_CODE_ID,
        "miner" => *MINER_ACTOR_CODE_ID,
        _ => make_identity_cid(b"not-a-builtin-actor"),
    }
}

const CODES: [&str; 17] = [
    "system", "init", "reward", "cron", "power", "market", "verifreg", "datacap", "eam", "account",
    "placeholder", "ethaccount", "evm", "multisig", "paych", "miner", "unknown",
];

fn ctor_params(env: &Env, code: &str, good: bool, kind: InitKind) -> RawBytes {
    if !good {
        return RawBytes::new(vec![0x83, 1, 2]);
    }
    let a0 = env.accounts[0].0;
    let a1 = env.accounts[1].0;
    match code {
        "multisig" => RawBytes::serialize(fil_actor_multisig::ConstructorParams {
            signers: vec![a0],
            num_approvals_threshold: 1,
            unlock_duration: 0,
            start_epoch: 0,
        })
        .unwrap(),
        "paych" => RawBytes::serialize(fil_actor_paych::ConstructorParams { from: a0, to: a1 }).unwrap(),
        "miner" => RawBytes::serialize(fil_actor_miner::MinerConstructorParams {
            owner: a0,
            worker: a1,
            control_addresses: vec![],
            window_post_proof_type: RegisteredPoStProof::StackedDRGWindow32GiBV1P1,
            peer_id: b"peer".to_vec(),
            multi_addresses: vec![],
        })
        .unwrap(),
        "evm" => RawBytes::serialize(fil_actor_evm::ConstructorParams {
            creator: fil_actors_evm_shared::address::EthAddress::from_id(EAM_ID),
            initcode: kind.code(env.faucet_id).into(),
        })
        .unwrap(),
        _ => RawBytes::default(),
    }
}

fn gen_init_kind(r: &mut Rng) -> InitKind {
    match r.below(20) {
        0 => InitKind::Empty,
        1 => InitKind::Revert,
        2 => InitKind::Invalid,
        3 | 4 => InitKind::SelfDestruct,
        5 => InitKind::NestedAgent(r.below(2) as u8),
        6 => InitKind::NestedChildReverts,
        7 => InitKind::NestedThenRevert,
        _ => InitKind::Agent(r.below(3) as u8),
    }
}

fn gen_salt(r: &mut Rng) -> [u8; 32] {
    let mut s = [0u8; 32];
    s[31] = r.below(3) as u8;
    if r.chance(1, 6) {
        s[0] = 0x80;
    }
    s
}

fn rand_bytes(r: &mut Rng, n: usize) -> Vec<u8> {
    (0..n).map(|_| r.below(256) as u8).collect()
}

fn pick_caller(r: &mut Rng, env: &Env, p: &Proj) -> Address {
    match r.below(12) {
        0 => Address::new_id(0),
        1 => Address::new_id(POWER_ID),
        2 => Address::new_id(EAM_ID),
        3 | 4 if !env.agents.is_empty() => Address::new_id(r.pick(&env.agents).id),
        5 if !env.placeholders.is_empty() => {
            Address::new_delegated(EAM_ID, r.pick(env.placeholders.as_slice()).as_slice()).unwrap()
        }
        6 => {
            // any existing actor
            let ids: Vec<u64> = p.acts.keys().cloned().collect();
            Address::new_id(*r.pick(&ids))
        }
        _ => r.pick(&env.accounts).0,
    }
}

fn reserved_candidates(r: &mut Rng) -> (Vec<u8>, bool) {
    // (address, is it reserved)
    let mut a = vec![0u8; 20];
    match r.below(9) {
        0 => (id_masked(r.below(200)), true),
        1 => (id_masked(u64::MAX - r.below(3)), true),
        2 => {
            a[19] = r.below(256) as u8;
            (a, true)
        }
        3 => {
            a[0] = 0xfe;
            a[19] = r.below(256) as u8;
            (a, true)
        }
        4 => (a, true),
        5 => {
            // 0xff with a non-zero padding byte: not an ID address
            let mut v = id_masked(r.below(200));
            v[1 + r.below(11) as usize] = 1;
            (v, false)
        }
        6 => {
            // precompile-like with a non-zero middle byte
            a[1 + r.below(18) as usize] = 1;
            a[19] = 5;
            (a, false)
        }
        7 => {
            a[0] = 0xfd;
            a[19] = 1;
            (a, false)
        }
        _ => {
            a[0] = 0xfe;
            a[18] = 1;
            (a, false)
        }
    }
}

fn gen_act(r: &mut Rng, env: &Env, p: &Proj) -> Act {
    let k = r.below(100);
    if env.agents.is_empty() && k < 60 {
        // bootstrap: deploy an agent from an account
        return Act::CreateExternal { caller: r.pick(&env.accounts).1, kind: InitKind::Agent(r.below(3) as u8) };
    }
    if k < 10 {
        let clean = r.chance(1, 2);
        let code = if clean { *r.pick(&["multisig", "paych", "miner", "multisig"]) } else { *r.pick(&CODES) };
        let caller = if clean {
            if code == "miner" { Address::new_id(POWER_ID) } else { r.pick(&env.accounts).0 }
        } else {
            pick_caller(r, env, p)
        };
        return Act::Exec { caller, code, good: clean || r.chance(3, 4) };
    }
    if k < 20 {
        let clean = r.chance(1, 2);
        let caller = if clean || r.chance(1, 2) { Address::new_id(EAM_ID) } else { pick_caller(r, env, p) };
        let code = if clean { "evm" } else { *r.pick(&["evm", "evm", "multisig", "placeholder", "account", "ethaccount", "paych", "unknown", "init", "eam"]) };
        let sub = match if clean { 5 + r.below(5) } else { r.below(10) } {
            0 => {
                let n = *r.pick(&[0usize, 1, 19, 21, 54, 55, 64]);
                rand_bytes(r, n)
            }
            1 if !env.agents.is_empty() => r.pick(&env.agents).eth.clone(),
            2 | 3 if !env.placeholders.is_empty() => r.pick(&env.placeholders).clone(),
            4 => {
                // the subaddress of any existing delegated address
                let ds: Vec<Vec<u8>> = p.acts.values().filter_map(|a| a.deleg.as_ref().map(|d| d.1.clone())).collect();
                if ds.is_empty() { rand_bytes(r, 20) } else { r.pick(&ds).clone() }
            }
            _ => {
                let mut b = rand_bytes(r, 20);
                b[0] = 0x11; // never a reserved prefix when the harness plays the EAM itself
                b
            }
        };
        let kind = if clean { InitKind::Agent(r.below(3) as u8) } else { gen_init_kind(r) };
        // when the harness itself plays the EAM it must behave like the EAM: the init actor does
        // not know the reserved ranges, only the EAM's `can_assign_address` enforces them
        let mut sub = sub;
        if spec_reserved(&sub) && caller == Address::new_id(EAM_ID) {
            sub[0] = 0x11;
        }
        return Act::Exec4 { caller, sub, code, kind };
    }
    if k < 28 {
        let caller = if r.chance(5, 6) && !env.agents.is_empty() { Address::new_id(r.pick(&env.agents).id) } else { pick_caller(r, env, p) };
        let cur = caller.id().ok().and_then(|i| p.acts.get(&i)).map(|a| a.nonce).unwrap_or(0);
        let nonce = match r.below(8) {
            0 => 0,
            1 => cur.saturating_sub(1),
            2 => cur + 1,
            3 => r.below(4),
            4 => *r.pick(&[0x7f, 0x80, 0xff, 0x100, u64::MAX, 1 << 32]),
            _ => cur,
        };
        return Act::EamCreate { caller, nonce, kind: gen_init_kind(r) };
    }
    if k < 36 {
        let caller = if r.chance(5, 6) && !env.agents.is_empty() { Address::new_id(r.pick(&env.agents).id) } else { pick_caller(r, env, p) };
        let forced = if r.chance(1, 3) { Some(reserved_candidates(r).0) } else { None };
        return Act::EamCreate2 { caller, salt: gen_salt(r), kind: gen_init_kind(r), forced };
    }
    if k < 44 {
        let caller = match r.below(8) {
            0 | 1 if !env.placeholders.is_empty() => Address::new_delegated(EAM_ID, r.pick(env.placeholders.as_slice()).as_slice()).unwrap(),
            2 => pick_caller(r, env, p),
            3 => r.pick(&env.accounts).0,
            _ => r.pick(&env.accounts).1,
        };
        return Act::CreateExternal { caller, kind: gen_init_kind(r) };
    }
    if k < 70 && !env.agents.is_empty() {
        // re-deploy at a self-destructed CREATE2 address?
        if r.chance(1, 4) && !env.recipes.is_empty() {
            let rc = r.pick(&env.recipes).clone();
            let kind = if r.chance(3, 4) { rc.kind } else { gen_init_kind(r) };
            return Act::AgentCreate { agent: rc.deployer, mode: 1, endow: 0, value: 0, salt: rc.salt, kind };
        }
        let agent = r.pick(&env.agents).id;
        let bal: u128 = p.acts.get(&agent).map(|a| a.balance.atto().to_string().parse().unwrap_or(0)).unwrap_or(0);
        let value = if r.chance(1, 4) { r.below(10) as u128 } else { 0 };
        let have = bal + value;
        let endow = match r.below(10) {
            0 => have + 1,
            1 => have,
            2 => have + 1_000_000,
            3 if have > 0 => have - 1,
            _ => 0,
        };
        let mode = match r.below(12) {
            0 => 4,
            1 => 5,
            x if x < 7 => 0,
            _ => 1,
        };
        return Act::AgentCreate { agent, mode, endow, value, salt: gen_salt(r), kind: gen_init_kind(r) };
    }
    if k < 78 && !env.agents.is_empty() {
        // prefer contracts that can be re-created
        let redo: Vec<u64> = env.recipes.iter().map(|x| x.id).filter(|i| env.agents.iter().any(|a| a.id == *i)).collect();
        let agent = if !redo.is_empty() && r.chance(2, 3) { *r.pick(&redo) } else { r.pick(&env.agents).id };
        return Act::SelfDestruct { agent };
    }
    if k < 82 {
        return Act::CreateMiner { caller: r.below(env.accounts.len() as u64) as usize, value: if r.chance(1, 4) { 0 } else { 100 } };
    }
    if k < 90 {
        let addr = match r.below(5) {
            0 => r.pick(&env.accounts).1,
            1 => Address::new_secp256k1(&{
                let mut k = rand_bytes(r, 65);
                k[0] = 4;
                k
            })
            .unwrap(),
            _ => Address::new_bls(&rand_bytes(r, 48)).unwrap(),
        };
        return Act::SendKey { addr };
    }
    // delegated targets
    let (ns, sub) = match r.below(10) {
        0 => {
            let n = r.below(30) as usize;
            (r.pick(&[0u64, 1, 4, 99, 100, 101]).to_owned(), rand_bytes(r, n))
        }
        1 => (*r.pick(&[8u64, 9, 11, 5000]), rand_bytes(r, 20)),
        2 => (EAM_ID, reserved_candidates(r).0),
        3 if !env.agents.is_empty() => {
            // the address a future CREATE of an agent will produce
            let a = r.pick(&env.agents);
            let n = p.acts.get(&a.id).map(|x| x.nonce).unwrap_or(1);
            (EAM_ID, spec_create_addr(&a.eth, n + r.below(2)))
        }
        4 | 5 if !env.agents.is_empty() => {
            // the address a future CREATE2 will produce
            let a = r.pick(&env.agents);
            let kind = InitKind::Agent(r.below(3) as u8);
            let salt = gen_salt(r);
            let sub = spec_create2_addr(&a.eth, &salt, &kind.code(env.faucet_id));
            return Act::SendFuture { sub, deployer: a.id, salt, kind };
        }
        6 if !env.placeholders.is_empty() => (EAM_ID, r.pick(&env.placeholders).clone()),
        _ => (EAM_ID, rand_bytes(r, 20)),
    };
    Act::SendDeleg { ns, sub }
}

/// result of executing an action on the implementation
struct Done {
    lines: Vec<Line>,
    sent: Sent,
    calls: Vec<EamCall>,
    opname: &'static str,
    /// ids the action reports as newly created, in order
    new_ids: Vec<u64>,
}

fn nested_lines(env: &mut Env, kind: InitKind, outer_id: u64, msg: u64, calls: &[EamCall], idx: usize, lines: &mut Vec<Line>, new_ids: &mut Vec<u64>, before: &Proj) {
    // the constructor of `outer_id` executed one CREATE (its nonce was 1)
    if let Some(child) = kind.nested() {
        if kind == InitKind::NestedThenRevert {
            return;
        }
        let c = calls.get(idx);
        let (robust, expect) = match c {
            Some(c) if c.ok => {
                let ret = c.ret.as_ref().unwrap();
                if !before.acts.contains_key(&ret.actor_id) {
                    new_ids.push(ret.actor_id);
                }
                (
                    ret.robust_address.map(|a| a.to_bytes()).unwrap_or_else(|| env.synth_robust()),
                    ok_line(Some(ret.actor_id), Some(&ret.eth_address.0)),
                )
            }
            _ => (env.synth_robust(), ok_line(None, None)),
        };
        lines.push(Line {
            text: format!("evmcreate {} {} 1 {} {}", msg, outer_id, hexs(&robust), child.ctor()),
            expect,
        });
    }
}

fn perform(env: &mut Env, act: &Act, before: &Proj) -> Done {
    let zero = TokenAmount::from_atto(0);
    match act {
        Act::Exec { caller, code, good } => {
            let params = fil_actor_init::ExecParams { code_cid: code_cid(code), constructor_params: ctor_params(env, code, *good, InitKind::Empty) };
            // a miner's constructor locks a creation deposit: pay for it when the caller can
            let caller_id = env.w.vm.resolve_id_address(caller).and_then(|a| a.id().ok());
            let rich = caller_id.and_then(|i| before.acts.get(&i)).map(|a| a.balance >= TokenAmount::from_whole(100)).unwrap_or(false);
            let value = if *code == "miner" && rich { TokenAmount::from_whole(100) } else { zero.clone() };
            let sent = env.send(caller, &INIT_ACTOR_ADDR, &value, fil_actor_init::Method::Exec as u64, IpldBlock::serialize_cbor(&params).unwrap());
            let ctor = match sent.trace.as_ref().and_then(ctor_status) {
                Some(false) => "fail",
                _ => "ok",
            };
            let (robust, expect, new_ids) = if sent.res.ok() {
                let ret: fil_actor_init::ExecReturn = sent.res.ret.clone().unwrap().deserialize().unwrap();
                let id = ret.id_address.id().unwrap();
                (ret.robust_address.to_bytes(), ok_line(Some(id), None), vec![id])
            } else {
                (env.synth_robust(), "err".to_string(), vec![])
            };
            let text = format!("exec {} {} {} {} {}", sent.msg, sent.from_id, code, hexs(&robust), ctor);
            Done { lines: vec![Line { text, expect }], sent, calls: vec![], opname: "exec", new_ids }
        }
        Act::Exec4 { caller, sub, code, kind } => {
            let params = fil_actor_init::Exec4Params {
                code_cid: code_cid(code),
                constructor_params: ctor_params(env, code, true, *kind),
                subaddress: sub.clone().into(),
            };
            let sent = env.send(caller, &INIT_ACTOR_ADDR, &zero, fil_actor_init::Method::Exec4 as u64, IpldBlock::serialize_cbor(&params).unwrap());
            let ctor = match sent.trace.as_ref().and_then(ctor_status) {
                Some(false) => "fail",
                Some(true) if *code == "evm" && *kind == InitKind::SelfDestruct => "sd",
                Some(true) => "ok",
                None => if *code == "evm" { kind.ctor() } else { "ok" },
            };
            let mut calls = vec![];
            if let Some(t) = &sent.trace {
                eam_calls(t, &mut calls);
            }
            let mut lines = vec![];
            let mut new_ids = vec![];
            if sent.res.ok() {
                let ret: fil_actor_init::Exec4Return = sent.res.ret.clone().unwrap().deserialize().unwrap();
                let id = ret.id_address.id().unwrap();
                if !before.acts.contains_key(&id) {
                    new_ids.push(id);
                }
                lines.push(Line {
                    text: format!("exec4 {} {} {} {} {} {}", sent.msg, sent.from_id, hexs(sub), code, hexs(&ret.robust_address.to_bytes()), ctor),
                    expect: ok_line(Some(id), None),
                });
                if *code == "evm" {
                    nested_lines(env, *kind, id, sent.msg, &calls, 0, &mut lines, &mut new_ids, before);
                }
            } else {
                let rb = env.synth_robust();
                lines.push(Line {
                    text: format!("exec4 {} {} {} {} {} {}", sent.msg, sent.from_id, hexs(sub), code, hexs(&rb), ctor),
                    expect: "err".into(),
                });
            }
            Done { lines, sent, calls, opname: "exec4", new_ids }
        }
        Act::EamCreate { .. } | Act::EamCreate2 { .. } | Act::CreateExternal { .. } => {
            let (caller, kind) = match act {
                Act::EamCreate { caller, kind, .. } | Act::EamCreate2 { caller, kind, .. } | Act::CreateExternal { caller, kind } => (*caller, *kind),
                _ => unreachable!(),
            };
            let code = kind.code(env.faucet_id);
            let (method, params, opname) = match act {
                Act::EamCreate { nonce, .. } => (
                    fil_actor_eam::Method::Create as u64,
                    IpldBlock::serialize_cbor(&fil_actor_eam::CreateParams { initcode: code.clone(), nonce: *nonce }).unwrap(),
                    "eamcreate",
                ),
                Act::EamCreate2 { salt, forced, .. } => {
                    if let Some(target) = forced {
                        // script the hash of exactly this CREATE2 pre-image
                        if let Some(eth) = env.w.vm.resolve_id_address(&caller).and_then(|a| a.id().ok()).and_then(|i| before.acts.get(&i)).and_then(|a| a.deleg.clone()) {
                            let mut pre = vec![0xffu8];
                            pre.extend_from_slice(&eth.1);
                            pre.extend_from_slice(salt);
                            pre.extend_from_slice(&keccak(&code));
                            let mut out = vec![0x5au8; 12];
                            out.extend_from_slice(target);
                            HASH_SCRIPT.with(|s| s.borrow_mut().push((pre, out)));
                        }
                    }
                    (
                        fil_actor_eam::Method::Create2 as u64,
                        IpldBlock::serialize_cbor(&fil_actor_eam::Create2Params { initcode: code.clone(), salt: *salt }).unwrap(),
                        if forced.is_some() { "eamassign" } else { "eamcreate2" },
                    )
                }
                _ => (
                    fil_actor_eam::Method::CreateExternal as u64,
                    IpldBlock::serialize_cbor(&fil_actor_eam::CreateExternalParams(code.clone())).unwrap(),
                    "createext",
                ),
            };
            let sent = env.send(&caller, &EAM_ACTOR_ADDR, &zero, method, params);
            HASH_SCRIPT.with(|s| s.borrow_mut().clear());
            let mut calls = vec![];
            if let Some(t) = &sent.trace {
                eam_calls(t, &mut calls);
            }
            let mut lines = vec![];
            let mut new_ids = vec![];
            let (robust, expect, outer) = if sent.res.ok() {
                let ret: fil_actor_eam::Return = sent.res.ret.clone().unwrap().deserialize().unwrap();
                if !before.acts.contains_key(&ret.actor_id) {
                    new_ids.push(ret.actor_id);
                }
                (
                    ret.robust_address.map(|a| a.to_bytes()).unwrap_or_else(|| env.synth_robust()),
                    ok_line(Some(ret.actor_id), Some(&ret.eth_address.0)),
                    Some(ret.actor_id),
                )
            } else {
                (env.synth_robust(), "err".to_string(), None)
            };
            let head = match act {
                Act::EamCreate { nonce, .. } => format!("eamcreate {} {} {}", sent.msg, sent.from_id, nonce),
                Act::EamCreate2 { salt, forced: None, .. } => format!("eamcreate2 {} {} {} {}", sent.msg, sent.from_id, hexs(salt), hexs(&keccak(&code))),
                Act::EamCreate2 { forced: Some(t), .. } => format!("eamassign {} {} {}", sent.msg, sent.from_id, hexs(t)),
                _ => format!("createext {} {} {}", sent.msg, sent.from_id, sent.seq),
            };
            lines.push(Line { text: format!("{} {} {}", head, hexs(&robust), kind.ctor()), expect });
            if let Some(id) = outer {
                nested_lines(env, kind, id, sent.msg, &calls, 1, &mut lines, &mut new_ids, before);
            }
            Done { lines, sent, calls, opname, new_ids }
        }
        Act::AgentCreate { agent, mode, endow, value, salt, kind } => {
            let code = kind.code(env.faucet_id);
            let mut data = vec![];
            data.extend_from_slice(&word(*mode as u128));
            data.extend_from_slice(&word(*endow));
            data.extend_from_slice(salt);
            data.extend_from_slice(&code);
            let from = env.accounts[0].0;
            let sent = env.send(
                &from,
                &Address::new_id(*agent),
                &TokenAmount::from_atto(*value),
                fil_actor_evm::Method::InvokeContract as u64,
                IpldBlock::serialize_cbor(&fil_actor_evm::InvokeContractParams { input_data: data }).unwrap(),
            );
            let mut calls = vec![];
            if let Some(t) = &sent.trace {
                eam_calls(t, &mut calls);
            }
            let is_c2 = mode & 1 == 1;
            let opname = if *mode >= 4 { "agent-create-revert" } else if is_c2 { "evmcreate2" } else { "evmcreate" };
            let mut lines = vec![];
            let mut new_ids = vec![];
            if *mode >= 4 || !sent.res.ok() {
                // the whole message is rolled back: the model state must be unchanged
                lines.push(Line { text: "show".into(), expect: if sent.res.ok() && before.acts.get(agent).map(|a| a.tomb.is_none()).unwrap_or(true) { "ok-unexpected".into() } else { ok_line(None, None) } });
                return Done { lines, sent, calls, opname, new_ids };
            }
            let bal: u128 = before.acts.get(agent).map(|a| a.balance.atto().to_string().parse().unwrap_or(0)).unwrap_or(0);
            let endow_ok = *endow <= bal + *value;
            let out: Vec<u8> = sent.res.ret.clone().and_then(|r| r.deserialize::<fil_actor_evm::InvokeContractReturn>().ok()).map(|b| b.output_data).unwrap_or_default();
            let created = out.len() == 32 && out.iter().any(|b| *b != 0);
            let first = calls.first();
            let (robust, expect, outer) = match first {
                Some(c) if c.ok && created => {
                    let ret = c.ret.as_ref().unwrap();
                    if !before.acts.contains_key(&ret.actor_id) {
                        new_ids.push(ret.actor_id);
                    }
                    (
                        ret.robust_address.map(|a| a.to_bytes()).unwrap_or_else(|| env.synth_robust()),
                        ok_line(Some(ret.actor_id), Some(&out[12..])),
                        Some(ret.actor_id),
                    )
                }
                _ => (env.synth_robust(), ok_line(None, None), None),
            };
            let head = if is_c2 {
                format!("evmcreate2 {} {} {} {} {}", sent.msg, agent, endow_ok as u8, hexs(salt), hexs(&keccak(&code)))
            } else {
                format!("evmcreate {} {} {}", sent.msg, agent, endow_ok as u8)
            };
            lines.push(Line { text: format!("{} {} {}", head, hexs(&robust), kind.ctor()), expect });
            if let Some(id) = outer {
                nested_lines(env, *kind, id, sent.msg, &calls, 1, &mut lines, &mut new_ids, before);
            }
            Done { lines, sent, calls, opname, new_ids }
        }
        Act::SelfDestruct { agent } => {
            let mut data = vec![];
            data.extend_from_slice(&word(2));
            let mut b = [0u8; 32];
            b[12..].copy_from_slice(&id_masked(env.faucet_id));
            data.extend_from_slice(&b);
            let from = env.accounts[0].0;
            let sent = env.send(
                &from,
                &Address::new_id(*agent),
                &zero,
                fil_actor_evm::Method::InvokeContract as u64,
                IpldBlock::serialize_cbor(&fil_actor_evm::InvokeContractParams { input_data: data }).unwrap(),
            );
            let expect = if sent.res.ok() { ok_line(None, None) } else { "err".into() };
            let text = format!("selfdestruct {} {}", sent.msg, agent);
            Done { lines: vec![Line { text, expect }], sent, calls: vec![], opname: "selfdestruct", new_ids: vec![] }
        }
        Act::CreateMiner { caller, value } => {
            let (id, key) = env.accounts[*caller];
            let params = fil_actor_power::CreateMinerParams {
                owner: id,
                worker: env.accounts[1].0,
                window_post_proof_type: RegisteredPoStProof::StackedDRGWindow32GiBV1P1,
                peer: b"peer".to_vec(),
                multiaddrs: vec![],
            };
            let sent = env.send(&key, &STORAGE_POWER_ACTOR_ADDR, &TokenAmount::from_whole(*value as i64), fil_actor_power::Method::CreateMiner as u64, IpldBlock::serialize_cbor(&params).unwrap());
            let (robust, expect, ctor, new_ids) = if sent.res.ok() {
                let ret: fil_actor_power::CreateMinerReturn = sent.res.ret.clone().unwrap().deserialize().unwrap();
                let id = ret.id_address.id().unwrap();
                (ret.robust_address.to_bytes(), ok_line(Some(id), None), "ok", vec![id])
            } else {
                (env.synth_robust(), "err".to_string(), "fail", vec![])
            };
            let text = format!("exec {} {} miner {} {}", sent.msg, POWER_ID, hexs(&robust), ctor);
            Done { lines: vec![Line { text, expect }], sent, calls: vec![], opname: "createminer", new_ids }
        }
        Act::SendKey { addr } => {
            let sent = env.send(&TEST_FAUCET_ADDR, addr, &TokenAmount::from_atto(7), METHOD_SEND, None);
            let id = env.w.vm.resolve_id_address(addr).and_then(|a| a.id().ok());
            let expect = if sent.res.ok() { ok_line(id, None) } else { "err".into() };
            let new_ids = id.filter(|i| sent.res.ok() && !before.acts.contains_key(i)).into_iter().collect();
            let text = format!("sendkey {} {} {}", sent.msg, sent.from_id, hexs(&addr.to_bytes()));
            Done { lines: vec![Line { text, expect }], sent, calls: vec![], opname: "sendkey", new_ids }
        }
        Act::SendFuture { sub, .. } => {
            let mut d = perform(env, &Act::SendDeleg { ns: EAM_ID, sub: sub.clone() }, before);
            d.opname = "send-to-future-create2-address";
            d
        }
        Act::SendDeleg { ns, sub } => {
            let text_tail = format!("{} {}", ns, hexs(sub));
            match Address::new_delegated(*ns, sub) {
                Ok(addr) => {
                    let sent = env.send(&TEST_FAUCET_ADDR, &addr, &TokenAmount::from_atto(5), METHOD_SEND, None);
                    let id = env.w.vm.resolve_id_address(&addr).and_then(|a| a.id().ok());
                    let expect = if sent.res.ok() { ok_line(id, None) } else { "err".into() };
                    let new_ids = id.filter(|i| sent.res.ok() && !before.acts.contains_key(i)).into_iter().collect();
                    let text = format!("senddel {} {} {}", sent.msg, sent.from_id, text_tail);
                    Done { lines: vec![Line { text, expect }], sent, calls: vec![], opname: "senddel", new_ids }
                }
                Err(_) => unreachable!("generator keeps subaddresses within 54 bytes"),
            }
        }
    }
}

// ---------------------------------------------------------------- oracle

type V = Option<(String, String)>;

fn viol(kind: &str, detail: String) -> V {
    Some((kind.to_string(), detail))
}

/// the property statement evaluated on the real states before/after one message
fn oracle(env: &Env, act: &Act, d: &Done, before: &Proj, after: &Proj) -> V {
    let ok = d.sent.res.ok();
    // -- a failed message changes nothing (except the sender's sequence / placeholder promotion)
    if !ok {
        if before.next != after.next {
            return viol("failed-message-changed-next-id", format!("{} -> {}", before.next, after.next));
        }
        if before.map != after.map {
            return viol("failed-message-changed-address-map", String::new());
        }
        for (id, a) in &after.acts {
            match before.acts.get(id) {
                None => return viol("failed-message-created-actor", format!("id {}", id)),
                Some(b) => {
                    let promoted = *id == d.sent.from_id && b.kind == "placeholder" && a.kind == "ethaccount";
                    if (b.kind != a.kind && !promoted) || b.nonce != a.nonce || b.tomb != a.tomb || b.deleg != a.deleg {
                        return viol("failed-message-changed-actor", format!("id {} {:?} -> {:?}", id, b, a));
                    }
                }
            }
        }
    }
    // -- ids: next_id never decreases, starts at 100; the address map only grows, never remaps
    if after.next < before.next {
        return viol("next-id-decreased", format!("{} -> {}", before.next, after.next));
    }
    if before.next < SPEC_FIRST_ID {
        return viol("next-id-below-100", format!("{}", before.next));
    }
    for (k, v) in &before.map {
        match after.map.get(k) {
            None => return viol("address-mapping-removed", format!("{} was {}", hex::encode(k), v)),
            Some(v2) if v2 != v => return viol("address-remapped", format!("{}: {} -> {}", hex::encode(k), v, v2)),
            _ => {}
        }
    }
    let new_range = before.next..after.next;
    for (k, v) in &after.map {
        if before.map.contains_key(k) {
            continue;
        }
        if *v >= after.next {
            return viol("mapping-to-unallocated-id", format!("{} -> {} next_id {}", hex::encode(k), v, after.next));
        }
        if !new_range.contains(v) {
            // a new address for an existing id: only a robust address added by a deployment over a
            // placeholder that already owned a delegated address
            let was_ph = before.acts.get(v).map(|a| a.kind == "placeholder").unwrap_or(false);
            if !was_ph {
                return viol("new-address-mapped-to-existing-actor", format!("{} -> {} ({:?})", hex::encode(k), v, before.acts.get(v).map(|a| a.kind)));
            }
        }
    }
    // every id of the new range is a created actor, every created actor is in the new range
    for (id, a) in &after.acts {
        if !before.acts.contains_key(id) {
            if !new_range.contains(id) {
                return viol("actor-created-at-non-fresh-id", format!("id {} range {:?}", id, new_range));
            }
            if !after.map.values().any(|v| v == id) {
                return viol("created-actor-has-no-address", format!("id {} kind {}", id, a.kind));
            }
        }
    }
    for id in new_range.clone() {
        if !after.acts.contains_key(&id) {
            return viol("id-consumed-without-actor", format!("id {}", id));
        }
    }
    // ids reported as new: equal to the old next_id onwards, never seen before, increasing
    let mut expect_id = before.next;
    for id in &d.new_ids {
        if *id != expect_id {
            return viol("returned-id-not-next-id", format!("returned {} expected {}", id, expect_id));
        }
        if env.fresh_log.last().map(|l| l >= id).unwrap_or(false) || env.fresh_log.contains(id) {
            return viol("returned-id-not-fresh", format!("id {} after {:?}", id, env.fresh_log.last()));
        }
        expect_id += 1;
    }
    // -- no overwrite: an existing actor keeps its code unless it was a placeholder; an EVM
    //    contract is re-initialised only when it was dead (self-destructed in an earlier message)
    for (id, b) in &before.acts {
        let a = match after.acts.get(id) {
            None => return viol("actor-disappeared", format!("id {} kind {}", id, b.kind)),
            Some(a) => a,
        };
        if a.code != b.code && b.kind != "placeholder" {
            return viol("actor-code-overwritten", format!("id {}: {} -> {}", id, b.kind, a.kind));
        }
        if a.deleg != b.deleg {
            return viol("delegated-address-changed", format!("id {}", id));
        }
        if b.kind == "evm" && a.kind == "evm" {
            let was_dead = b.tomb.is_some() && b.tomb != Some((d.sent.from_id, d.sent.seq));
            let reinit = a.nonce < b.nonce || (b.tomb.is_some() && a.tomb != b.tomb);
            if reinit && !was_dead {
                return viol("live-contract-reinitialised", format!("id {}: nonce {} -> {}, tomb {:?} -> {:?}", id, b.nonce, a.nonce, b.tomb, a.tomb));
            }
            if !reinit && a.nonce < b.nonce {
                return viol("deployer-nonce-decreased", format!("id {}: {} -> {}", id, b.nonce, a.nonce));
            }
        }
    }
    // -- creation permissions
    match act {
        Act::Exec { code, .. } if ok => {
            let caller_kind = before.acts.get(&d.sent.from_id).map(|a| a.kind).unwrap_or("?");
            let allowed = *code == "multisig" || *code == "paych" || (*code == "miner" && caller_kind == "power");
            if !allowed {
                return viol("exec-outside-matrix", format!("caller {} created {}", caller_kind, code));
            }
        }
        Act::Exec4 { .. } if ok => {
            if d.sent.from_id != EAM_ID {
                return viol("exec4-by-non-eam", format!("caller {}", d.sent.from_id));
            }
        }
        _ => {}
    }
    // -- every successful EAM creation: formula, mapping, reserved ranges
    for c in &d.calls {
        if !c.ok || !ok {
            continue;
        }
        let ret = match &c.ret {
            Some(r) => r,
            None => return viol("eam-return-undecodable", String::new()),
        };
        let eth = ret.eth_address.0.to_vec();
        if spec_reserved(&eth) {
            return viol("reserved-address-assigned", format!("0x{} to id {}", hex::encode(&eth), ret.actor_id));
        }
        let f4 = Address::new_delegated(EAM_ID, &eth).unwrap().to_bytes();
        if after.map.get(&f4) != Some(&ret.actor_id) {
            return viol("created-address-not-mapped-to-returned-id", format!("0x{} id {} map {:?}", hex::encode(&eth), ret.actor_id, after.map.get(&f4)));
        }
        match after.acts.get(&ret.actor_id) {
            Some(a) if a.kind == "evm" && a.deleg == Some((EAM_ID, eth.clone())) => {}
            x => return viol("returned-id-is-not-the-new-contract", format!("id {} {:?}", ret.actor_id, x.map(|a| a.kind))),
        }
        // the Ethereum formulas
        let forced = matches!(act, Act::EamCreate2 { forced: Some(_), .. }) && c.method == 3 && c.from == d.sent.from_id;
        let from_eth = before.acts.get(&c.from).or(after.acts.get(&c.from)).and_then(|a| a.deleg.clone()).map(|d| d.1);
        let expected: Option<Vec<u8>> = match c.method {
            2 => {
                let p: fil_actor_eam::CreateParams = c.params.as_ref().unwrap().deserialize().unwrap();
                from_eth.map(|e| spec_create_addr(&e, p.nonce))
            }
            3 if !forced => {
                let p: fil_actor_eam::Create2Params = c.params.as_ref().unwrap().deserialize().unwrap();
                from_eth.map(|e| spec_create2_addr(&e, &p.salt, &p.initcode))
            }
            4 => {
                let caller = before.acts.get(&c.from).or(after.acts.get(&c.from));
                caller.map(|a| {
                    if a.kind == "account" { spec_create_addr(&keccak(&a.key)[12..], d.sent.seq) } else { spec_create_addr(&a.deleg.clone().unwrap().1, d.sent.seq) }
                })
            }
            _ => None,
        };
        if let Some(e) = expected {
            if e != eth {
                return viol("address-not-by-formula", format!("method {} got 0x{} expected 0x{}", c.method, hex::encode(&eth), hex::encode(&e)));
            }
        }
    }
    // no EVM contract ever sits at a reserved address
    for (id, a) in &after.acts {
        if a.kind == "evm" {
            if let Some((ns, sub)) = &a.deleg {
                if *ns == EAM_ID && spec_reserved(sub) {
                    return viol("contract-at-reserved-address", format!("id {} 0x{}", id, hex::encode(sub)));
                }
            }
        }
    }
    // -- deployer nonce, from the trace: every contract ends with (1 if it was (re-)initialised in
    //    this message, else its old nonce) + the number of Create/Create2 calls it made to the EAM
    //    in committed frames, whether those calls succeeded or not
    if ok {
        for (id, a) in &after.acts {
            if a.kind != "evm" {
                continue;
            }
            let made = d.calls.iter().filter(|c| c.depth > 0 && c.from == *id && (c.method == 2 || c.method == 3)).count() as u64;
            let reinit = d.calls.iter().any(|c| c.ok && c.ret.as_ref().map(|r| r.actor_id) == Some(*id))
                || before.acts.get(id).map(|b| b.kind != "evm").unwrap_or(true);
            let base = if reinit { 1 } else { before.acts[id].nonce };
            if a.nonce != base + made {
                return viol("deployer-nonce-rule", format!("contract {}: nonce {} expected {} + {} EAM calls", id, a.nonce, base, made));
            }
        }
    }
    // -- deployer nonce: one per CREATE/CREATE2 that passed the endowment check, kept on failure
    if let Act::AgentCreate { agent, mode, endow, value, .. } = act {
        if let (Some(b), Some(a)) = (before.acts.get(agent), after.acts.get(agent)) {
            let bal: u128 = b.balance.atto().to_string().parse().unwrap_or(0);
            let alive = b.tomb.is_none();
            if ok && *mode < 4 && alive {
                let expect = if *endow <= bal + *value { b.nonce + 1 } else { b.nonce };
                if a.nonce != expect {
                    return viol("deployer-nonce-not-consumed", format!("agent {}: {} -> {}, expected {}", agent, b.nonce, a.nonce, expect));
                }
            }
        }
    }
    None
}

// ---------------------------------------------------------------- run

fn norm(model: &str) -> (String, String) {
    let mut it = model.splitn(2, " | ");
    let head = it.next().unwrap_or("").to_string();
    let proj = it.next().unwrap_or("").to_string();
    let head = if head.starts_with("err") { "err".to_string() } else { head };
    (head, proj)
}

const REENTRANT_SEQ: u64 = 1_000_000;

/// Scripted scenario (oracle only): a factory contract that re-enters itself.  The inner activation
/// performs a CREATE (consuming the deployer's nonce), the outer activation then writes storage and
/// returns, so it flushes its own view of the contract state.  The persisted nonce must not go
/// backwards and the next CREATE must use the next nonce; every child address must follow the
/// CREATE formula.
fn reentrant_factory_scenario(cfg: &RunCfg, rep: &mut Report) {
    const RUNTIME: [u8; 33] = [
        0x36, 0x60, 0x0e, 0x57, // calldatasize; push1 0x0e; jumpi
        0x5f, 0x5f, 0x5f, 0xf0, // push0 x3; create
        0x5f, 0x52, 0x60, 0x20, 0x5f, 0xf3, // mstore; return the child address
        0x5b, // jumpdest: non-empty calldata
        0x60, 0x20, 0x5f, 0x5f, 0x5f, 0x5f, 0x30, 0x5a, 0xf1, // call self with empty calldata
        0x50, 0x5f, 0x51, 0x5f, 0x55, // pop; mload 0; sstore 0 (dirties the outer activation)
        0x60, 0x20, 0x5f, 0xf3,
    ];
    let mut init = vec![0x60, 0x21, 0x60, 0x0a, 0x5f, 0x39, 0x60, 0x21, 0x5f, 0xf3];
    init.extend_from_slice(&RUNTIME);
    let w = World::new(false);
    let acct = w.create_accounts(1, 9191, &TokenAmount::from_whole(1000))[0].0;
    rep.sequences += 1;
    let mut lines = vec![format!("# scripted: re-entrant factory (seed {} seq {})", cfg.seed, REENTRANT_SEQ)];
    let mut bad = |kind: &str, detail: String, lines: &Vec<String>, rep: &mut Report| {
        let hdr = vec![format!("property C20 seed {} seq {} (re-run: ba_harness c20 --seed {} --only-seq {})", cfg.seed, REENTRANT_SEQ, cfg.seed, REENTRANT_SEQ), format!("violation {}: {}", kind, detail)];
        let path = write_replay("C20", &format!("{}-{}", cfg.seed, REENTRANT_SEQ), &hdr, lines);
        rep.violations.push(Violation { kind: kind.into(), detail, replay: path });
    };
    let r = w.apply(&acct, &Address::new_id(EAM_ID), &TokenAmount::from_atto(0), fil_actor_eam::Method::CreateExternal as u64, Some(fil_actor_eam::CreateExternalParams(init)));
    rep.ops += 1;
    lines.push(format!("create_external factory -> {}", r.code.value()));
    if !r.ok() { rep.notes.push(format!("re-entrant factory could not be deployed: {}", r.message)); return; }
    rep.ops_ok += 1;
    let ret: fil_actor_eam::CreateExternalReturn = r.ret.unwrap().deserialize().unwrap();
    let a = Address::new_id(ret.actor_id);
    let a_eth = ret.eth_address.0.to_vec();
    let nonce_of = |w: &World| vm_api::util::get_state::<fil_actor_evm::State>(&w.vm, &a).map(|s| s.nonce).unwrap_or(0);
    let mut expected_nonce = nonce_of(&w);
    for (i, calldata) in [vec![1u8], vec![], vec![1u8], vec![1u8], vec![]].into_iter().enumerate() {
        let before = nonce_of(&w);
        let params = fil_actor_evm::InvokeContractParams { input_data: calldata.clone() };
        let r = w.apply(&acct, &a, &TokenAmount::from_atto(0), fil_actor_evm::Method::InvokeContract as u64, Some(params));
        rep.ops += 1;
        rep.op("reentrant-factory");
        lines.push(format!("invoke factory calldata={:?} -> {}", calldata, r.code.value()));
        if !r.ok() { bad("reentrant-factory-call-failed", format!("message {}: {}", i, r.message), &lines, rep); return; }
        rep.ops_ok += 1;
        let out: fvm_ipld_encoding::BytesDe = r.ret.unwrap().deserialize().unwrap();
        let child = out.0[12..32].to_vec();
        let want = spec_create_addr(&a_eth, expected_nonce);
        expected_nonce += 1;
        let after = nonce_of(&w);
        if after < before || after != expected_nonce {
            bad("deployer-nonce-decreased-or-not-consumed", format!("message {}: persisted nonce {} -> {}, expected {}", i, before, after, expected_nonce), &lines, rep);
            return;
        }
        if child != want {
            bad("address-not-by-formula", format!("message {}: child {} expected CREATE(A, {}) = {}", i, hexs(&child), expected_nonce - 1, hexs(&want)), &lines, rep);
            return;
        }
    }
}

pub fn run(cfg: &RunCfg) -> Report {
    let mut rep = Report::new("C20", cfg.seed, &cfg.tier);
    rep.nontrivial_rule = "a sequence is non-trivial when it created at least 3 actors through Exec/Exec4/EAM and at least one of them through an EVM CREATE/CREATE2 opcode; distinct = distinct hash of the op lines".into();
    let (nseq, maxlen) = if cfg.thorough() { (3000u64, 150i64) } else { (400, 60) };
    let nseq = nseq * cfg.budget;
    let mut lean = if cfg.use_lean { Some(LeanDriver::spawn("init").expect("lean driver")) } else { None };
    if let Some(l) = lean.as_mut() {
        let a = l.ask("selftest").unwrap();
        if a != "ok" {
            rep.disagreements.push(Disagreement { seq: 0, step: 0, op: "selftest".into(), impl_out: "ok".into(), model_out: a, replay: String::new() });
            return rep;
        }
        // direct validation of the Lean Keccak/RLP against the implementation's hash and this file's RLP
        let mut r = seq_rng(cfg.seed, u64::MAX);
        for i in 0..60u64 {
            let len = match i { 0 => 0, 1 => 135, 2 => 136, 3 => 137, 4 => 271, 5 => 272, 6 => 273, _ => r.below(300) as usize };
            let data = rand_bytes(&mut r, len);
            let m = l.ask(&format!("keccak {}", hexs(&data))).unwrap();
            if m != hex::encode(keccak(&data)) {
                rep.disagreements.push(Disagreement { seq: 0, step: i, op: format!("keccak {}", hexs(&data)), impl_out: hex::encode(keccak(&data)), model_out: m, replay: String::new() });
                return rep;
            }
            let addr = rand_bytes(&mut r, 20);
            let nonce = match i % 8 { 0 => 0, 1 => 0x7f, 2 => 0x80, 3 => 0xff, 4 => 0x100, 5 => u64::MAX, _ => r.next() >> r.below(64) };
            let m = l.ask(&format!("rlp {} {}", hexs(&addr), nonce)).unwrap();
            let mut s = rlp::RlpStream::new();
            s.begin_list(2).append(&&addr[..]).append(&nonce);
            let want = hex::encode(s.out());
            if m != want || want != hex::encode(rlp_addr_nonce(&addr, nonce)) {
                rep.disagreements.push(Disagreement { seq: 0, step: i, op: format!("rlp {} {}", hexs(&addr), nonce), impl_out: want, model_out: m, replay: String::new() });
                return rep;
            }
            rep.branch("kat-keccak-rlp");
        }
    }
    let mut seen = HashSet::new();
    let seqs: Vec<u64> = match cfg.only_seq { Some(k) => vec![k], None => (0..nseq).collect() };
    'seqs: for seq in seqs {
        let mut r = seq_rng(cfg.seed, seq);
        let w = World::new(false);
        w.vm.mut_primitives().override_hash(scripted_hash);
        HASH_SCRIPT.with(|s| s.borrow_mut().clear());
        let mut env = Env {
            w, msg: 0, msg_of: HashMap::new(), accounts: vec![], agents: vec![], placeholders: vec![],
            recipes: vec![], synth: 0, fresh_log: vec![], faucet_id: TEST_FAUCET_ADDR.id().unwrap(),
        };
        let mut lines: Vec<String> = vec![];
        let mut agree = true;
        // -- genesis: replay the vvm's own set-up through the model and compare the whole state
        {
            let p0 = project(&env.w);
            let id_of = |addr: &Address| p0.map.get(&addr.to_bytes()).cloned();
            let root_key = Address::new_bls(crate::vvm::VERIFREG_ROOT_KEY).unwrap();
            let faucet_key = Address::new_bls(crate::vvm::FAUCET_ROOT_KEY).unwrap();
            let msig_robust: Vec<u8> = p0.map.iter().find(|(k, v)| **v == 101 && k[0] == 2).map(|(k, _)| k.clone()).unwrap_or_default();
            let setup = vec![
                "init".to_string(),
                format!("sendkey 0 1 {}", hexs(&root_key.to_bytes())),
                format!("exec 0 0 multisig {} ok", hexs(&msig_robust)),
                format!("sendkey 0 0 {}", hexs(&faucet_key.to_bytes())),
            ];
            assert_eq!(id_of(&root_key), Some(100));
            let mut last = String::new();
            for s in &setup {
                lines.push(s.clone());
                if let Some(l) = lean.as_mut() {
                    last = l.ask(s).unwrap();
                }
            }
            if lean.is_some() {
                let (_, proj) = norm(&last);
                let real = show(&p0, &env.msg_of);
                if proj != real {
                    rep.disagreements.push(Disagreement { seq, step: 0, op: "genesis".into(), impl_out: real, model_out: proj, replay: String::new() });
                    continue 'seqs;
                }
            }
            env.fresh_log = vec![100, 101, 102];
        }
        rep.sequences += 1;
        {
            let f = env.w.apply_raw(&TEST_FAUCET_ADDR, &STORAGE_POWER_ACTOR_ADDR, &TokenAmount::from_whole(1000), METHOD_SEND, None);
            assert!(f.ok());
        }
        // accounts (auto-created by sends from the faucet)
        let keys = vm_api::util::pk_addrs_from(seq.wrapping_mul(31).wrapping_add(cfg.seed), 3);
        let len = r.range(8, maxlen) as u64;
        let mut created = 0u64;
        let mut by_opcode = 0u64;
        let mut step = 0u64;
        let mut pending_accounts: Vec<Address> = keys.clone();
        while step < len {
            let before = project(&env.w);
            let act = if let Some(k) = pending_accounts.pop() {
                Act::SendKey { addr: k }
            } else {
                gen_act(&mut r, &env, &before)
            };
            let setup_step = matches!(&act, Act::SendKey { addr } if keys.contains(addr)) && env.accounts.len() < 3;
            let d = perform(&mut env, &act, &before);
            if setup_step {
                if let Act::SendKey { addr } = &act {
                    let id = env.w.vm.resolve_id_address(addr).unwrap();
                    // fund generously
                    let f = env.w.apply_raw(&TEST_FAUCET_ADDR, &id, &TokenAmount::from_whole(10_000), METHOD_SEND, None);
                    assert!(f.ok());
                    env.msg += 1;
                    env.accounts.push((id, *addr));
                }
            }
            let after = project(&env.w);
            rep.ops += 1;
            rep.op(d.opname);
            if d.sent.res.ok() { rep.ops_ok += 1; } else { rep.err(&format!("{}:{}", d.opname, exit_class(d.sent.res.code))); }
            for l in &d.lines { lines.push(l.text.clone()); }
            let replay_hdr = vec![
                format!("property C20 seed {} seq {} (re-run: ba_harness c20 --seed {} --only-seq {})", cfg.seed, seq, cfg.seed, seq),
                format!("failing step {}: {:?}", step, act),
                format!("result: code {} {}", d.sent.res.code.value(), d.sent.res.message),
            ];
            if d.sent.res.panicked {
                let path = write_replay("C20", &format!("{}-{}", cfg.seed, seq), &replay_hdr, &lines);
                rep.violations.push(Violation { kind: "panic".into(), detail: d.sent.res.message.clone(), replay: path });
                continue 'seqs;
            }
            if let Some((kind, detail)) = oracle(&env, &act, &d, &before, &after) {
                let path = write_replay("C20", &format!("{}-{}", cfg.seed, seq), &replay_hdr, &lines);
                rep.violations.push(Violation { kind, detail, replay: path });
                continue 'seqs;
            }
            // bookkeeping of the generator's view
            env.fresh_log.extend(d.new_ids.iter().cloned());
            created += d.new_ids.len() as u64;
            if d.sent.res.ok() {
                match &act {
                    Act::SendDeleg { ns, sub } if *ns == EAM_ID && sub.len() == 20 && !d.new_ids.is_empty() => env.placeholders.push(sub.clone()),
                    Act::SendFuture { sub, deployer, salt, kind } => {
                        if !d.new_ids.is_empty() {
                            env.placeholders.push(sub.clone());
                            env.recipes.push(C2Recipe { deployer: *deployer, salt: *salt, kind: *kind, id: d.new_ids[0] });
                        }
                    }
                    Act::AgentCreate { agent, mode, salt, kind, .. } if !d.new_ids.is_empty() || d.calls.first().map(|c| c.ok).unwrap_or(false) => {
                        by_opcode += 1;
                        if let Some(c) = d.calls.first().filter(|c| c.ok) {
                            if *mode == 1 {
                                let id = c.ret.as_ref().unwrap().actor_id;
                                env.recipes.retain(|x| x.id != id);
                                env.recipes.push(C2Recipe { deployer: *agent, salt: *salt, kind: *kind, id });
                            }
                        }
                    }
                    _ => {}
                }
                // every EVM contract that carries the agent runtime can act as a deployer
                let act_kind = match &act {
                    Act::Exec4 { kind, .. } | Act::EamCreate { kind, .. } | Act::EamCreate2 { kind, .. }
                    | Act::CreateExternal { kind, .. } | Act::AgentCreate { kind, .. } => Some(*kind),
                    _ => None,
                };
                let direct_exec4 = matches!(act, Act::Exec4 { .. });
                for (i, c) in d.calls.iter().enumerate().filter(|(_, c)| c.ok) {
                    let ret = c.ret.as_ref().unwrap();
                    let k = if i == 0 && !direct_exec4 { act_kind } else { act_kind.and_then(|k| k.nested()) };
                    env.agents.retain(|a| a.id != ret.actor_id);
                    if k.map(|k| k.is_agent()).unwrap_or(false) {
                        env.agents.push(Agent { id: ret.actor_id, eth: ret.eth_address.0.to_vec() });
                    }
                }
                if let Act::Exec4 { code, sub, kind, .. } = &act {
                    if *code == "evm" && sub.len() == 20 {
                        if let Some(id) = after.map.get(&Address::new_delegated(EAM_ID, sub).unwrap().to_bytes()) {
                            env.agents.retain(|a| a.id != *id);
                            if kind.is_agent() {
                                env.agents.push(Agent { id: *id, eth: sub.clone() });
                            }
                        }
                    }
                }
                if matches!(act, Act::SelfDestruct { .. }) { rep.branch("selfdestruct-ok"); }
                for (id, b) in &before.acts {
                    if let Some(a) = after.acts.get(id) {
                        if b.kind == "placeholder" && a.kind == "evm" { rep.branch("deploy-over-placeholder"); }
                        if b.kind == "placeholder" && a.kind == "ethaccount" { rep.branch("placeholder-to-ethaccount"); }
                        if b.kind == "evm" && b.tomb.is_some() && (a.tomb != b.tomb || a.nonce < b.nonce) { rep.branch("resurrect"); }
                    }
                }
                if d.calls.len() > 1 && d.calls.iter().filter(|c| c.ok).count() > 1 { rep.branch("nested-create-in-constructor"); }
            } else if matches!(act, Act::EamCreate2 { forced: Some(_), .. }) {
                rep.branch("scripted-hash-rejected");
            }
            // -- correspondence
            if let Some(l) = lean.as_mut() {
                let n = d.lines.len();
                for (i, line) in d.lines.iter().enumerate() {
                    let m = l.ask(&line.text).unwrap();
                    let (head, proj) = norm(&m);
                    let real_proj = show(&after, &env.msg_of);
                    let bad_head = head != line.expect;
                    let bad_proj = i + 1 == n && proj != real_proj;
                    if bad_head || bad_proj {
                        agree = false;
                        let path = write_replay("C20", &format!("corr-{}-{}", cfg.seed, seq), &replay_hdr, &lines);
                        rep.disagreements.push(Disagreement {
                            seq, step, op: line.text.clone(),
                            impl_out: format!("{} | {}", line.expect, if bad_proj { real_proj } else { String::new() }),
                            model_out: if bad_proj { m } else { head },
                            replay: path,
                        });
                        continue 'seqs;
                    }
                }
            }
            step += 1;
        }
        if agree && lean.is_some() { rep.traces_validated += 1; }
        let nontrivial = created >= 3 && by_opcode >= 1;
        if nontrivial && seen.insert(hash_lines(&lines)) { rep.distinct_nontrivial += 1; }
        if rep.samples.len() < 3 && nontrivial {
            rep.samples.push(json!({"seq": seq, "ops": lines.iter().skip(4).take(14).map(|l| if l.len() > 160 { format!("{}…", &l[..160]) } else { l.clone() }).collect::<Vec<_>>()}));
        }
    }
    if cfg.only_seq.is_none() || cfg.only_seq == Some(REENTRANT_SEQ) {
        reentrant_factory_scenario(cfg, &mut rep);
    }
    rep.notes.push("a resurrected contract restarts with nonce 1 (System::resurrect → System::new): `deployer nonces only grow` holds per incarnation; the oracle accepts a nonce reset only for a contract that was dead (self-destructed in an earlier message)".into());
    rep.notes.push("a plain send to the f410 form of a reserved eth address creates a placeholder there (VM rule); the EAM never deploys a contract at such an address".into());
    rep
}
