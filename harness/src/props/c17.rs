//! C17 — EVM instructions compute what the Ethereum specification says.
//! Public path only: contracts are created through the EAM (`CreateExternal`) and run with
//! `InvokeContract` in the vvm.
//!  (i)  per instruction: every arithmetic / comparison / bitwise opcode on operand classes, compared with
//!       an independent big-integer transcription of the Yellow Paper (oracle, in this file) and with
//!       BOTH `xImpl` and `xSpec` of the Lean model (`eval` op of the `evm` driver);
//!  (ii) generated multi-instruction programs (arithmetic, loops, computed jumps to valid / invalid
//!       targets, memory up to 64 KiB, storage / transient storage, call-data / code / return-data copies,
//!       hashing) with random call data, compared with the Lean interpreter (`run` op): outcome class,
//!       return / revert data and final storage (KAMT dump of the contract state).
use super::{RunCfg, hash_lines, seq_rng};
use crate::lean::LeanDriver;
use crate::report::{Disagreement, Report, Violation, write_replay};
use crate::rng::Rng;
use crate::world::World;
use fil_actors_evm_shared::uints::U256;
use fil_actors_runtime::EAM_ACTOR_ADDR;
use fvm_ipld_encoding::ipld_block::IpldBlock;
use fvm_ipld_encoding::{BytesDe, BytesSer};
use fvm_ipld_kamt::{AsHashedKey, Config as KamtConfig, HashedKey, Kamt};
use fvm_shared::address::Address;
use fvm_shared::bigint::{BigInt, BigUint, Sign};
use fvm_shared::econ::TokenAmount;
use num_traits::{One, Zero};
use serde_json::json;
use std::borrow::Cow;
use std::collections::{BTreeMap, HashSet};
use vm_api::VM;

// ------------------------------------------------------------------ real side

struct Evm {
    w: World,
    acct: Address,
}

#[derive(Clone, Debug, PartialEq, Eq)]
struct RealOut {
    class: String,
    data: Vec<u8>,
    panicked: bool,
    msg: String,
}

fn class_of(code: u32) -> String {
    match code {
        0 => "return".into(),
        33 => "revert".into(),
        34 => "invalid_instruction".into(),
        35 => "undefined_instruction".into(),
        36 => "stack_underflow".into(),
        37 => "stack_overflow".into(),
        38 => "illegal_memory_access".into(),
        39 => "bad_jumpdest".into(),
        n => format!("exit_{}", n),
    }
}

/// init code returning `runtime` as the contract's code:
/// PUSH2 len DUP1 PUSH1 10 PUSH0 CODECOPY PUSH0 RETURN ‖ runtime
fn initcode(runtime: &[u8]) -> Vec<u8> {
    let n = runtime.len();
    let mut v = vec![0x61, (n >> 8) as u8, n as u8, 0x80, 0x60, 0x0a, 0x5f, 0x39, 0x5f, 0xf3];
    v.extend_from_slice(runtime);
    v
}

struct StateHashAlgorithm;
impl AsHashedKey<U256, 32> for StateHashAlgorithm {
    fn as_hashed_key(key: &U256) -> Cow<'_, HashedKey<32>> {
        Cow::Owned(key.to_big_endian())
    }
}
/// the contract-state KAMT configuration of actors/evm/src/interpreter/system.rs (private there); a
/// wrong copy fails loudly when loading
const KAMT_CONFIG: KamtConfig = KamtConfig { min_data_depth: 0, bit_width: 5, max_array_width: 1 };

/// Replacement for `FakePrimitives::hash_64` of runtime/src/test_utils.rs, which destructures
/// `Multihash::into_inner()` = (code, digest, size) as `(len, buf, ..)` and so returns the multihash *code*
/// (0x1b = 27 for Keccak-256) as the digest length: under the repo's test VM every KECCAK256 result is cut to
/// 27 bytes. That is a defect of the test support code, not of the EVM actor (the FVM syscall returns the real
/// length); the harness installs a correct primitive so that the instruction itself can be checked.
fn hash_64_fixed(hasher: fvm_shared::crypto::hash::SupportedHashes, data: &[u8]) -> ([u8; 64], usize) {
    use fvm_shared::crypto::hash::SupportedHashes;
    use multihash_codetable::{Code, MultihashDigest};
    let mut buf = [0u8; 64];
    match hasher {
        SupportedHashes::Keccak256 => {
            buf[..32].copy_from_slice(&keccak256(data));
            (buf, 32)
        }
        h => {
            let mh = Code::try_from(h as u64).unwrap().digest(data);
            let d = mh.digest();
            buf[..d.len()].copy_from_slice(d);
            (buf, d.len())
        }
    }
}

impl Evm {
    fn new() -> Evm {
        let w = World::new(false);
        w.vm.mut_primitives().override_hash_64(hash_64_fixed);
        let accts = w.create_accounts(1, 1717, &TokenAmount::from_whole(1_000_000));
        Evm { w, acct: accts[0].0 }
    }

    fn deploy(&self, runtime: &[u8]) -> Result<Address, String> {
        let params = IpldBlock::serialize_cbor(&fil_actor_eam::CreateExternalParams(initcode(runtime))).unwrap();
        let r = self.w.apply_raw(
            &self.acct,
            &EAM_ACTOR_ADDR,
            &TokenAmount::zero(),
            fil_actor_eam::Method::CreateExternal as u64,
            params,
        );
        if !r.ok() {
            return Err(format!("create failed: code {} {}", r.code.value(), r.message));
        }
        let ret: fil_actor_eam::CreateExternalReturn =
            r.ret.ok_or("no return")?.deserialize().map_err(|e| e.to_string())?;
        let _ = self.w.take_trace();
        Ok(Address::new_id(ret.actor_id))
    }

    fn invoke(&self, c: &Address, calldata: &[u8]) -> RealOut {
        let params = IpldBlock::serialize_cbor(&BytesSer(calldata)).unwrap();
        let r = self.w.apply_raw(
            &self.acct,
            c,
            &TokenAmount::zero(),
            fil_actor_evm::Method::InvokeContract as u64,
            params,
        );
        let _ = self.w.take_trace();
        let data = match &r.ret {
            Some(b) => match b.deserialize::<BytesDe>() {
                Ok(BytesDe(d)) => d,
                Err(_) => b.data.clone(),
            },
            None => vec![],
        };
        RealOut {
            class: if r.panicked { "panic".into() } else { class_of(r.code.value()) },
            data,
            panicked: r.panicked,
            msg: r.message,
        }
    }

    /// all non-zero slots of the contract's storage, read from the state tree
    fn storage_dump(&self, c: &Address) -> BTreeMap<U256, U256> {
        let st: fil_actor_evm::State = vm_api::util::get_state(&self.w.vm, c).unwrap();
        let kamt: Kamt<_, U256, U256, StateHashAlgorithm> =
            Kamt::load_with_config(&st.contract_state, self.w.vm.store.as_ref(), KAMT_CONFIG)
                .expect("contract state KAMT");
        let mut m = BTreeMap::new();
        kamt.for_each(|k, v| {
            if !v.is_zero() {
                m.insert(*k, *v);
            }
            Ok(())
        })
        .unwrap();
        m
    }
}

fn hx(u: &U256) -> String {
    format!("{:x}", u)
}

fn hex_bytes(b: &[u8]) -> String {
    if b.is_empty() { "-".into() } else { hex::encode(b) }
}

fn show_storage(m: &BTreeMap<U256, U256>) -> String {
    if m.is_empty() {
        "-".into()
    } else {
        m.iter().map(|(k, v)| format!("{}:{}", hx(k), hx(v))).collect::<Vec<_>>().join(",")
    }
}

// ------------------------------------------------------------------ independent keccak-256

fn keccak_f(st: &mut [u64; 25]) {
    const RC: [u64; 24] = [
        0x0000000000000001, 0x0000000000008082, 0x800000000000808a, 0x8000000080008000,
        0x000000000000808b, 0x0000000080000001, 0x8000000080008081, 0x8000000000008009,
        0x000000000000008a, 0x0000000000000088, 0x0000000080008009, 0x000000008000000a,
        0x000000008000808b, 0x800000000000008b, 0x8000000000008089, 0x8000000000008003,
        0x8000000000008002, 0x8000000000000080, 0x000000000000800a, 0x800000008000000a,
        0x8000000080008081, 0x8000000000008080, 0x0000000080000001, 0x8000000080008008,
    ];
    const ROTC: [u32; 24] =
        [1, 3, 6, 10, 15, 21, 28, 36, 45, 55, 2, 14, 27, 41, 56, 8, 25, 43, 62, 18, 39, 61, 20, 44];
    const PILN: [usize; 24] =
        [10, 7, 11, 17, 18, 3, 5, 16, 8, 21, 24, 4, 15, 23, 19, 13, 12, 2, 20, 14, 22, 9, 6, 1];
    for rc in RC.iter() {
        let mut bc = [0u64; 5];
        for i in 0..5 {
            bc[i] = st[i] ^ st[i + 5] ^ st[i + 10] ^ st[i + 15] ^ st[i + 20];
        }
        for i in 0..5 {
            let t = bc[(i + 4) % 5] ^ bc[(i + 1) % 5].rotate_left(1);
            for j in (0..25).step_by(5) {
                st[j + i] ^= t;
            }
        }
        let mut t = st[1];
        for i in 0..24 {
            let j = PILN[i];
            let b = st[j];
            st[j] = t.rotate_left(ROTC[i]);
            t = b;
        }
        for j in (0..25).step_by(5) {
            let mut row = [0u64; 5];
            row.copy_from_slice(&st[j..j + 5]);
            for i in 0..5 {
                st[j + i] ^= (!row[(i + 1) % 5]) & row[(i + 2) % 5];
            }
        }
        st[0] ^= rc;
    }
}

/// Keccak-256 (original padding 0x01), written here so that the hash oracle handed to the Lean model
/// does not come from the crate the actors use
pub fn keccak256(data: &[u8]) -> [u8; 32] {
    let rate = 136;
    let mut st = [0u64; 25];
    let mut buf = data.to_vec();
    buf.push(0x01);
    while buf.len() % rate != 0 {
        buf.push(0);
    }
    let n = buf.len();
    buf[n - 1] |= 0x80;
    for block in buf.chunks(rate) {
        for i in 0..rate / 8 {
            let mut w = [0u8; 8];
            w.copy_from_slice(&block[8 * i..8 * i + 8]);
            st[i] ^= u64::from_le_bytes(w);
        }
        keccak_f(&mut st);
    }
    let mut out = [0u8; 32];
    for i in 0..4 {
        out[8 * i..8 * i + 8].copy_from_slice(&st[i].to_le_bytes());
    }
    out
}

// ------------------------------------------------------------------ the specification, on big integers

fn two256() -> BigInt {
    BigInt::one() << 256
}
fn to_big(u: &U256) -> BigInt {
    BigInt::from_bytes_be(Sign::Plus, &u.to_big_endian())
}
fn from_big(i: &BigInt) -> U256 {
    // reduce mod 2^256 into [0, 2^256)
    let m = two256();
    let mut r = i % &m;
    if r.sign() == Sign::Minus {
        r += &m;
    }
    let (_, b) = r.to_bytes_be();
    U256::from_big_endian(&b)
}
fn signed(u: &U256) -> BigInt {
    let x = to_big(u);
    if x >= (BigInt::one() << 255) { x - two256() } else { x }
}
fn bool_w(b: bool) -> U256 {
    if b { U256::ONE } else { U256::ZERO }
}

/// Yellow Paper appendix H.2 / EIP-145 / EIP-7939, transcribed on unbounded integers. Operands in
/// stack order (a = top).
fn spec(op: &str, a: &U256, b: &U256, c: &U256) -> U256 {
    let (ua, ub, uc) = (to_big(a), to_big(b), to_big(c));
    let (sa, sb) = (signed(a), signed(b));
    match op {
        "ADD" => from_big(&(&ua + &ub)),
        "MUL" => from_big(&(&ua * &ub)),
        "SUB" => from_big(&(&ua - &ub)),
        "DIV" => if ub.is_zero() { U256::ZERO } else { from_big(&(&ua / &ub)) },
        "MOD" => if ub.is_zero() { U256::ZERO } else { from_big(&(&ua % &ub)) },
        // BigInt `/` and `%` truncate toward zero; remainder has the sign of the dividend
        "SDIV" => if sb.is_zero() { U256::ZERO } else { from_big(&(&sa / &sb)) },
        "SMOD" => if sb.is_zero() { U256::ZERO } else { from_big(&(&sa % &sb)) },
        "ADDMOD" => if uc.is_zero() { U256::ZERO } else { from_big(&((&ua + &ub) % &uc)) },
        "MULMOD" => if uc.is_zero() { U256::ZERO } else { from_big(&((&ua * &ub) % &uc)) },
        "EXP" => from_big(&ua.modpow(&ub, &two256())),
        "SIGNEXTEND" => {
            if ua >= BigInt::from(31) {
                *b
            } else {
                let n = 8 * (a.low_u64() as usize + 1);
                let m = BigInt::one() << n;
                let x = &ub % &m;
                if x >= (BigInt::one() << (n - 1)) { from_big(&(x - m)) } else { from_big(&x) }
            }
        }
        "LT" => bool_w(ua < ub),
        "GT" => bool_w(ua > ub),
        "SLT" => bool_w(sa < sb),
        "SGT" => bool_w(sa > sb),
        "EQ" => bool_w(ua == ub),
        "ISZERO" => bool_w(ua.is_zero()),
        "AND" | "OR" | "XOR" => {
            let (x, y) = (a.to_big_endian(), b.to_big_endian());
            let mut o = [0u8; 32];
            for i in 0..32 {
                o[i] = match op { "AND" => x[i] & y[i], "OR" => x[i] | y[i], _ => x[i] ^ y[i] };
            }
            U256::from_big_endian(&o)
        }
        "NOT" => from_big(&(two256() - BigInt::one() - &ua)),
        "BYTE" => {
            if ua >= BigInt::from(32) { U256::ZERO } else { U256::from(b.to_big_endian()[a.low_u64() as usize] as u64) }
        }
        "SHL" => if ua >= BigInt::from(256) { U256::ZERO } else { from_big(&(&ub << (a.low_u64() as usize))) },
        "SHR" => if ua >= BigInt::from(256) { U256::ZERO } else { from_big(&(&ub >> (a.low_u64() as usize))) },
        "SAR" => {
            if ua >= BigInt::from(256) {
                if sb.sign() == Sign::Minus { from_big(&BigInt::from(-1)) } else { U256::ZERO }
            } else {
                // BigInt >> is an arithmetic (floor) shift
                let d = BigInt::one() << (a.low_u64() as usize);
                let (q, r) = (&sb / &d, &sb % &d);
                let fl = if r.sign() == Sign::Minus { q - BigInt::one() } else { q };
                from_big(&fl)
            }
        }
        "CLZ" => {
            let bits = BigUint::from_bytes_be(&a.to_big_endian()).bits();
            U256::from(256 - bits)
        }
        _ => panic!("spec: unknown op {}", op),
    }
}

// ------------------------------------------------------------------ (i) per-instruction

const OPS: &[(&str, u8, usize)] = &[
    ("ADD", 0x01, 2), ("MUL", 0x02, 2), ("SUB", 0x03, 2), ("DIV", 0x04, 2), ("SDIV", 0x05, 2),
    ("MOD", 0x06, 2), ("SMOD", 0x07, 2), ("ADDMOD", 0x08, 3), ("MULMOD", 0x09, 3), ("EXP", 0x0a, 2),
    ("SIGNEXTEND", 0x0b, 2), ("LT", 0x10, 2), ("GT", 0x11, 2), ("SLT", 0x12, 2), ("SGT", 0x13, 2),
    ("EQ", 0x14, 2), ("ISZERO", 0x15, 1), ("AND", 0x16, 2), ("OR", 0x17, 2), ("XOR", 0x18, 2),
    ("NOT", 0x19, 1), ("BYTE", 0x1a, 2), ("SHL", 0x1b, 2), ("SHR", 0x1c, 2), ("SAR", 0x1d, 2),
    ("CLZ", 0x1e, 1),
];

const N_CLASSES: usize = 20;

fn rand_word(r: &mut Rng) -> U256 {
    U256([r.next(), r.next(), r.next(), r.next()])
}

fn pow2(k: u64) -> U256 {
    U256::ONE << (k as usize)
}

/// operand classes of the property statement
fn operand(r: &mut Rng, class: usize) -> U256 {
    let max = U256::MAX;
    match class {
        0 => U256::ZERO,
        1 => U256::ONE,
        2 => U256::from(2u64),
        3 => pow2(r.below(256)),
        4 => pow2(r.below(256)).overflowing_add(U256::ONE).0,
        5 => pow2(r.below(256)).overflowing_sub(U256::ONE).0,
        6 => pow2(255),
        7 => pow2(255) + U256::ONE,
        8 => pow2(255) - U256::ONE,
        9 => max,
        10 => max - U256::ONE,
        11 => rand_word(r),
        12 => U256::from(r.below(1 << 16)),
        13 => U256::from(r.next()),
        14 => U256::ZERO.overflowing_sub(U256::from(1 + r.below(1 << 16))).0,
        15 => {
            let s = [0u64, 1, 7, 8, 31, 32, 255, 256, 257];
            if r.chance(1, 10) { pow2(64) } else { U256::from(*r.pick(&s)) }
        }
        16 => U256::from(r.below(40)),
        17 => {
            // a value occupying k+1 bytes with a chosen top bit (sign-extension / byte boundaries)
            let k = r.below(32) as usize;
            let mut b = [0u8; 32];
            for i in (31 - k)..32 {
                b[i] = r.next() as u8;
            }
            if r.chance(1, 2) { b[31 - k] |= 0x80 } else { b[31 - k] &= 0x7f }
            U256::from_big_endian(&b)
        }
        18 => {
            let k = 64 * (1 + r.below(3));
            match r.below(3) {
                0 => pow2(k),
                1 => pow2(k) - U256::ONE,
                _ => pow2(k) + U256::ONE,
            }
        }
        _ => {
            // negative big: -(2^k) and neighbours
            let v = pow2(r.below(255));
            let n = U256::ZERO.overflowing_sub(v).0;
            match r.below(3) {
                0 => n,
                1 => n.overflowing_add(U256::ONE).0,
                _ => n.overflowing_sub(U256::ONE).0,
            }
        }
    }
}

/// runtime code: operands from call data (word 0 = a = top of stack), apply OP, return the word
fn op_contract(opcode: u8, arity: usize) -> Vec<u8> {
    let mut c = vec![];
    for i in (0..arity).rev() {
        if i == 0 {
            c.push(0x5f);
        } else {
            c.extend_from_slice(&[0x60, (32 * i) as u8]);
        }
        c.push(0x35); // CALLDATALOAD
    }
    c.push(opcode);
    c.extend_from_slice(&[0x5f, 0x52, 0x60, 0x20, 0x5f, 0xf3]); // PUSH0 MSTORE PUSH1 32 PUSH0 RETURN
    c
}

/// the same computation with the operands as PUSH32 literals (exercises PUSH32 instead of call data)
fn op_contract_literal(opcode: u8, args: &[U256]) -> Vec<u8> {
    let mut c = vec![];
    for a in args.iter().rev() {
        c.push(0x7f);
        c.extend_from_slice(&a.to_big_endian());
    }
    c.push(opcode);
    c.extend_from_slice(&[0x5f, 0x52, 0x60, 0x20, 0x5f, 0xf3]);
    c
}

struct Ctx<'a> {
    cfg: &'a RunCfg,
    rep: Report,
    lean: Option<LeanDriver>,
    evm: Evm,
}

fn replay_header(cfg: &RunCfg, seq: u64, what: &str) -> Vec<String> {
    vec![
        format!("property C17 seed {} seq {} (re-run: ba_harness c17 --seed {} --only-seq {})", cfg.seed, seq, cfg.seed, seq),
        what.to_string(),
    ]
}

/// number of operand tuples evaluated by one invocation of the batch contract
const BATCH: usize = 16;

/// straight-line runtime code evaluating OP on `BATCH` operand tuples taken from the call data (tuple j at
/// 32·arity·j, word 0 of a tuple = a = top of stack); result j goes to memory word j; returns all words
fn op_contract_batch(opcode: u8, arity: usize) -> Vec<u8> {
    let mut c = vec![];
    for j in 0..BATCH {
        for i in (0..arity).rev() {
            let off = 32 * (arity * j + i);
            c.extend_from_slice(&[0x61, (off >> 8) as u8, off as u8, 0x35]); // PUSH2 off CALLDATALOAD
        }
        c.push(opcode);
        let m = 32 * j;
        c.extend_from_slice(&[0x61, (m >> 8) as u8, m as u8, 0x52]); // PUSH2 m MSTORE
    }
    let n = 32 * BATCH;
    c.extend_from_slice(&[0x61, (n >> 8) as u8, n as u8, 0x5f, 0xf3]); // PUSH2 n PUSH0 RETURN
    c
}

/// real execution of one tuple on its own (calldata contract, or PUSH32 literals in a fresh contract)
fn exec_single(cx: &mut Ctx, opcode: u8, contract: &Address, args: &[U256], literal: bool) -> RealOut {
    if literal {
        match cx.evm.deploy(&op_contract_literal(opcode, args)) {
            Ok(c) => cx.evm.invoke(&c, &[]),
            Err(e) => RealOut { class: format!("deploy-failed: {}", e), data: vec![], panicked: false, msg: e },
        }
    } else {
        let mut cd = vec![];
        for a in args {
            cd.extend_from_slice(&a.to_big_endian());
        }
        cx.evm.invoke(contract, &cd)
    }
}

fn eval_line(name: &str, args: &[U256]) -> String {
    format!("eval {} {}", name, args.iter().map(hx).collect::<Vec<_>>().join(" "))
}

/// judge one instruction on one operand tuple: `out` is what the real EVM actor answered, `lean` the model
/// driver's answer to the `eval` line. Returns false when the sequence must stop (violation found).
fn judge_case(cx: &mut Ctx, seq: u64, name: &str, args: &[U256], literal: bool, out: &RealOut,
              lean: Option<&String>, agree: &mut bool) -> bool {
    cx.rep.ops += 1;
    cx.rep.op(name);
    let line = eval_line(name, args);
    let zero = U256::ZERO;
    let want = spec(name, &args[0], args.get(1).unwrap_or(&zero), args.get(2).unwrap_or(&zero));
    let real = if out.class == "return" && out.data.len() == 32 {
        Some(U256::from_big_endian(&out.data))
    } else {
        None
    };
    let real_s = match &real {
        Some(v) => hx(v),
        None => format!("{}:{}", out.class, hex_bytes(&out.data)),
    };
    let hdr = replay_header(cx.cfg, seq, &format!("instruction {} operands (a = top of stack) {:?} literal={}", name, args.iter().map(hx).collect::<Vec<_>>(), literal));
    if out.panicked {
        let path = write_replay("C17", &format!("{}-{}", cx.cfg.seed, seq), &hdr, &[line.clone(), format!("# real: panic {}", out.msg)]);
        cx.rep.violations.push(Violation { kind: "panic".into(), detail: format!("{} {}", line, out.msg), replay: path });
        return false;
    }
    if real != Some(want) {
        let path = write_replay("C17", &format!("{}-{}", cx.cfg.seed, seq), &hdr,
            &[line.clone(), format!("# real: {}", real_s), format!("# spec (Yellow Paper, big integers): {}", hx(&want))]);
        cx.rep.violations.push(Violation {
            kind: "instruction-result-differs-from-spec".into(),
            detail: format!("{} -> real {} spec {}", line, real_s, hx(&want)),
            replay: path,
        });
        return false;
    }
    cx.rep.ops_ok += 1;
    if let Some(m) = lean {
        let m = m.clone();
        let parts: Vec<&str> = m.split(' ').collect();
        if parts.len() != 3 || parts[0] != "ok" {
            *agree = false;
            cx.rep.disagreements.push(Disagreement { seq, step: cx.rep.ops, op: line.clone(), impl_out: real_s, model_out: m.clone(), replay: String::new() });
            return false;
        }
        let (li, ls) = (parts[1], parts[2]);
        if ls != real_s {
            // the Lean transcription of the specification disagrees with the implementation
            let path = write_replay("C17", &format!("{}-{}", cx.cfg.seed, seq), &hdr,
                &[line.clone(), format!("# real: {}", real_s), format!("# lean xSpec: {} xImpl: {}", ls, li)]);
            cx.rep.violations.push(Violation {
                kind: "instruction-result-differs-from-spec".into(),
                detail: format!("{} -> real {} lean-spec {}", line, real_s, ls),
                replay: path,
            });
            return false;
        }
        if li != real_s {
            *agree = false;
            let path = write_replay("C17", &format!("corr-{}-{}", cx.cfg.seed, seq), &hdr, &[line.clone(), format!("# real: {}", real_s)]);
            cx.rep.disagreements.push(Disagreement { seq, step: cx.rep.ops, op: line.clone(), impl_out: real_s, model_out: m.clone(), replay: path });
            return false;
        }
    }
    true
}

fn run_opcode(cx: &mut Ctx, idx: usize) {
    let (name, opcode, arity) = OPS[idx];
    let seq = idx as u64;
    let mut r = seq_rng(cx.cfg.seed, seq);
    cx.rep.sequences += 1;
    let contract = match cx.evm.deploy(&op_contract(opcode, arity)) {
        Ok(c) => c,
        Err(e) => {
            let hdr = replay_header(cx.cfg, seq, &format!("deploying the {} test contract", name));
            let path = write_replay("C17", &format!("{}-{}", cx.cfg.seed, seq), &hdr, &[e.clone()]);
            cx.rep.violations.push(Violation { kind: "contract-creation-failed".into(), detail: e, replay: path });
            return;
        }
    };
    let mult = if cx.cfg.thorough() { 10 } else { 1 } * cx.cfg.budget;
    let mut agree = true;
    let mut cases: Vec<Vec<U256>> = vec![];
    match arity {
        1 => {
            for c in 0..N_CLASSES {
                for _ in 0..(8 * mult) {
                    cases.push(vec![operand(&mut r, c)]);
                }
            }
            for k in 0..256 {
                cases.push(vec![pow2(k)]);
            }
        }
        2 => {
            for c1 in 0..N_CLASSES {
                for c2 in 0..N_CLASSES {
                    for _ in 0..(3 * mult) {
                        cases.push(vec![operand(&mut r, c1), operand(&mut r, c2)]);
                    }
                }
            }
            // the same value on both sides, and the named corner cases
            for c in 0..N_CLASSES {
                let v = operand(&mut r, c);
                cases.push(vec![v, v]);
            }
            cases.push(vec![U256::MAX, pow2(255)]); // b = MIN, a = -1 (a is the top of stack)
            cases.push(vec![pow2(255), U256::MAX]); // MIN op -1
            for k in 0..34u64 {
                cases.push(vec![U256::from(k), operand(&mut r, 17)]);
                cases.push(vec![U256::from(k), rand_word(&mut r)]);
            }
            for k in [0u64, 1, 7, 8, 31, 32, 63, 64, 65, 127, 128, 254, 255, 256, 257, 511, 512, 1 << 32, (1 << 32) + 1] {
                for c in [6usize, 9, 11, 14, 19, 8] {
                    cases.push(vec![U256::from(k), operand(&mut r, c)]);
                }
            }
            for _ in 0..(600 * mult) {
                cases.push(vec![rand_word(&mut r), rand_word(&mut r)]);
            }
        }
        _ => {
            let cls = [0usize, 1, 2, 3, 5, 6, 8, 9, 10, 11, 12, 13];
            for c1 in cls {
                for c2 in cls {
                    for c3 in cls {
                        for _ in 0..mult {
                            cases.push(vec![operand(&mut r, c1), operand(&mut r, c2), operand(&mut r, c3)]);
                        }
                    }
                }
            }
            for _ in 0..(600 * mult) {
                cases.push(vec![rand_word(&mut r), rand_word(&mut r), rand_word(&mut r)]);
            }
        }
    }
    let n = cases.len();
    let batch = match cx.evm.deploy(&op_contract_batch(opcode, arity)) {
        Ok(c) => c,
        Err(e) => {
            let hdr = replay_header(cx.cfg, seq, &format!("deploying the {} batch contract", name));
            let path = write_replay("C17", &format!("{}-{}", cx.cfg.seed, seq), &hdr, &[e.clone()]);
            cx.rep.violations.push(Violation { kind: "contract-creation-failed".into(), detail: e, replay: path });
            return;
        }
    };
    for (ci, chunk) in cases.chunks(BATCH).enumerate() {
        // one invocation evaluates the whole chunk (missing tuples of the last chunk are zeros)
        let mut cd = vec![0u8; 32 * arity * BATCH];
        for (j, args) in chunk.iter().enumerate() {
            for (i, a) in args.iter().enumerate() {
                let o = 32 * (arity * j + i);
                cd[o..o + 32].copy_from_slice(&a.to_big_endian());
            }
        }
        let bout = cx.evm.invoke(&batch, &cd);
        let batch_ok = bout.class == "return" && bout.data.len() == 32 * BATCH;
        let lines: Vec<String> = chunk.iter().map(|a| eval_line(name, a)).collect();
        let answers: Option<Vec<String>> = cx.lean.as_mut().map(|l| l.ask_many(&lines).unwrap());
        for (j, args) in chunk.iter().enumerate() {
            // a few cases per opcode go alone: through the single-tuple contract, or as PUSH32 literals in a
            // freshly created contract; a failed batch is re-run tuple by tuple to name the offending operands
            let idx = ci * BATCH + j;
            let literal = idx % (n / 12 + 1) == 7;
            let alone = literal || !batch_ok || idx % (n / 12 + 1) == 3;
            let out = if alone {
                exec_single(cx, opcode, &contract, args, literal)
            } else {
                RealOut { class: "return".into(), data: bout.data[32 * j..32 * j + 32].to_vec(), panicked: false, msg: String::new() }
            };
            let ans = answers.as_ref().map(|v| &v[j]);
            if !judge_case(cx, seq, name, args, literal, &out, ans, &mut agree) {
                return;
            }
        }
    }
    if agree && cx.lean.is_some() {
        cx.rep.traces_validated += 1;
    }
    cx.rep.distinct_nontrivial += 1;
    if cx.rep.samples.len() < 3 {
        let a = &cases[cases.len() / 2];
        cx.rep.samples.push(json!({"seq": seq, "instruction": name, "cases": n,
            "example": format!("eval {} {}", name, a.iter().map(hx).collect::<Vec<_>>().join(" "))}));
    }
}

// ------------------------------------------------------------------ (ii) generated programs

#[derive(Clone, Debug)]
enum It {
    Op(u8),
    /// PUSHn with exactly these bytes (n = len, 0 → PUSH0)
    Push(Vec<u8>),
    /// PUSH2 <address of label>
    PushLabel(usize),
    /// JUMPDEST, defines the label
    Label(usize),
    /// PUSH1 0x5b whose data byte defines the label (an invalid destination that looks like one)
    InnerLabel(usize),
    /// a non-JUMPDEST byte (STOP) that defines the label
    PlainLabel(usize),
    Raw(Vec<u8>),
}

fn assemble(items: &[It]) -> (Vec<u8>, BTreeMap<usize, usize>) {
    let mut pos = BTreeMap::new();
    let mut at = 0usize;
    for it in items {
        match it {
            It::Op(_) => at += 1,
            It::Push(b) => at += 1 + b.len(),
            It::PushLabel(_) => at += 3,
            It::Label(l) => { pos.insert(*l, at); at += 1; }
            It::InnerLabel(l) => { pos.insert(*l, at + 1); at += 2; }
            It::PlainLabel(l) => { pos.insert(*l, at); at += 1; }
            It::Raw(b) => at += b.len(),
        }
    }
    let mut code = vec![];
    for it in items {
        match it {
            It::Op(o) => code.push(*o),
            It::Push(b) => { code.push(0x5f + b.len() as u8); code.extend_from_slice(b); }
            It::PushLabel(l) => { let p = pos[l]; code.extend_from_slice(&[0x61, (p >> 8) as u8, p as u8]); }
            It::Label(_) => code.push(0x5b),
            It::InnerLabel(_) => code.extend_from_slice(&[0x60, 0x5b]),
            It::PlainLabel(_) => code.push(0x00),
            It::Raw(b) => code.extend_from_slice(b),
        }
    }
    (code, pos)
}

fn push_u(v: u64) -> It {
    if v == 0 {
        return It::Push(vec![]);
    }
    let b = v.to_be_bytes();
    let skip = b.iter().take_while(|x| **x == 0).count();
    It::Push(b[skip..].to_vec())
}

fn push_w(r: &mut Rng, v: &U256) -> It {
    let b = v.to_big_endian();
    let skip = b.iter().take_while(|x| **x == 0).count();
    // sometimes keep leading zero bytes (wider PUSH than needed)
    let keep = if r.chance(1, 4) { r.below(skip as u64 + 1) as usize } else { skip };
    It::Push(b[keep..].to_vec())
}

enum CdSlot {
    Label(usize),
    Value(U256),
}

struct Gen<'r> {
    r: &'r mut Rng,
    items: Vec<It>,
    labels: usize,
    res_off: u64,
    /// words the generator wants at 32*k in the call data
    cd_slots: Vec<CdSlot>,
    keys: Vec<U256>,
    /// length of the return data produced by the last identity call (statically known)
    ret_len: Option<u64>,
    uses_hash: bool,
}

const BINOPS: &[u8] = &[0x01, 0x02, 0x03, 0x04, 0x05, 0x06, 0x07, 0x0a, 0x0b, 0x10, 0x11, 0x12, 0x13, 0x14, 0x16, 0x17, 0x18, 0x1a, 0x1b, 0x1c, 0x1d];
const UNOPS: &[u8] = &[0x15, 0x19, 0x1e];

impl<'r> Gen<'r> {
    fn op(&mut self, o: u8) { self.items.push(It::Op(o)); }
    fn pu(&mut self, v: u64) { self.items.push(push_u(v)); }
    fn pw(&mut self, v: &U256) { let it = push_w(self.r, v); self.items.push(it); }
    fn label(&mut self) -> usize { self.labels += 1; self.labels }

    /// pop the top of the stack into the result area of the memory
    fn store_result(&mut self) {
        let off = self.res_off;
        self.pu(off);
        self.op(0x52);
        self.res_off = if self.res_off + 32 >= 0x400 { 0 } else { self.res_off + 32 };
    }

    fn mem_off(&mut self) -> u64 {
        match self.r.below(8) {
            0 => self.r.below(64),
            1 => *self.r.pick(&[31u64, 32, 33, 63, 64, 65, 0x3e0, 0x3ff, 0x400]),
            2 => self.r.below(0x400),
            3 => self.r.below(0x10000),
            4 => 0xffe0 - self.r.below(3) * 31,
            _ => 32 * self.r.below(32),
        }
    }

    fn value(&mut self) -> U256 {
        let c = self.r.below(N_CLASSES as u64) as usize;
        operand(self.r, c)
    }

    /// push one operand from a random source
    fn operand(&mut self) {
        match self.r.below(10) {
            0 | 1 => {
                // a call-data word chosen by the generator
                let v = self.value();
                self.cd_slots.push(CdSlot::Value(v));
                let off = 32 * (self.cd_slots.len() as u64 - 1);
                self.pu(off);
                self.op(0x35);
            }
            2 => {
                // call data at an arbitrary (possibly out of range / unaligned) offset
                let off = match self.r.below(4) { 0 => self.r.below(400), 1 => 1 << 32, 2 => u64::MAX, _ => self.r.below(64) };
                self.pu(off);
                self.op(0x35);
            }
            3 => { let o = 32 * self.r.below(32); self.pu(o); self.op(0x51); }
            4 => { let k = self.r.pick(&self.keys.clone()).clone(); self.pw(&k); self.op(0x54); }
            _ => { let v = self.value(); self.pw(&v); }
        }
    }

    fn frag_arith(&mut self) {
        let n = 1 + self.r.below(3);
        self.operand();
        for _ in 0..n {
            match self.r.below(10) {
                0 => { let o = *self.r.pick(UNOPS); self.op(o); }
                1 => { self.operand(); self.operand(); let o = if self.r.chance(1, 2) { 0x08 } else { 0x09 }; self.op(o); }
                _ => { self.operand(); if self.r.chance(1, 2) { self.op(0x90); } let o = *self.r.pick(BINOPS); self.op(o); }
            }
        }
        match self.r.below(6) {
            0 => { let k = self.r.pick(&self.keys.clone()).clone(); self.pw(&k); self.op(0x55); }
            1 => { let k = self.r.pick(&self.keys.clone()).clone(); self.pw(&k); self.op(0x5d); }
            _ => self.store_result(),
        }
    }

    fn frag_loop(&mut self) {
        let n = 1 + self.r.below(14);
        let l = self.label();
        self.pu(n);
        self.items.push(It::Label(l));
        match self.r.below(4) {
            0 => {
                // storage accumulator: s[k] = s[k] + f(cnt)
                let k = self.r.pick(&self.keys.clone()).clone();
                self.op(0x80);
                let c = self.value(); self.pw(&c);
                let o = *self.r.pick(&[0x01u8, 0x02, 0x18, 0x0a, 0x1b, 0x03]); self.op(o);
                self.pw(&k); self.op(0x54); self.op(0x01); self.pw(&k); self.op(0x55);
            }
            1 => {
                // mem[base + 32*cnt] = g(cnt)
                let base = 32 * self.r.below(8);
                self.op(0x80); self.op(0x80); let c = self.value(); self.pw(&c); self.op(0x02);
                self.op(0x90); self.pu(5); self.op(0x1b); self.pu(base); self.op(0x01); self.op(0x52);
            }
            2 => {
                let k = self.r.pick(&self.keys.clone()).clone();
                self.pw(&k); self.op(0x5c); self.op(0x81); self.op(0x01); self.pw(&k); self.op(0x5d);
            }
            _ => {
                // byte writes walking through memory
                let base = self.r.below(0x300);
                self.op(0x80); self.op(0x80); self.pu(base); self.op(0x01); self.op(0x53);
            }
        }
        self.pu(1); self.op(0x90); self.op(0x03);
        self.op(0x80); self.items.push(It::PushLabel(l)); self.op(0x57);
        self.op(0x50);
    }

    /// jumps whose destination comes from the call data or from a literal; valid and invalid targets
    fn frag_jump(&mut self) {
        let target = self.label();
        let kind = self.r.below(24);
        match kind {
            0..=9 => {
                // JUMP to a destination read from the call data (valid)
                self.cd_slots.push(CdSlot::Label(target));
                let off = 32 * (self.cd_slots.len() as u64 - 1);
                self.pu(off); self.op(0x35); self.op(0x56);
                self.items.push(It::Raw(vec![0xfe, 0x5b - 1, 0x60])); // skipped garbage (ends in a PUSH1 eating the next byte)
                self.items.push(It::Raw(vec![0x00]));
                self.items.push(It::Label(target));
            }
            10..=18 => {
                // JUMPI on a call-data condition over a fragment
                let v = if self.r.chance(1, 2) { U256::ZERO } else { self.value() };
                self.cd_slots.push(CdSlot::Value(v));
                let off = 32 * (self.cd_slots.len() as u64 - 1);
                self.pu(off); self.op(0x35);
                self.items.push(It::PushLabel(target)); self.op(0x57);
                self.frag_arith();
                self.items.push(It::Label(target));
            }
            19 => {
                // JUMP into push data that holds 0x5b: must be rejected
                let inner = self.label();
                self.items.push(It::PushLabel(inner)); self.op(0x56);
                self.items.push(It::InnerLabel(inner)); self.op(0x50);
                self.items.push(It::Label(target));
            }
            20 => {
                // JUMP to a byte that is not a JUMPDEST
                let plain = self.label();
                self.items.push(It::PushLabel(plain)); self.op(0x56);
                self.items.push(It::PlainLabel(plain));
                self.items.push(It::Label(target));
            }
            21 => {
                // destination beyond the code / beyond u32 / huge
                let v = match self.r.below(4) { 0 => U256::from(0xffffu64), 1 => U256::from(1u64 << 32), 2 => U256::MAX, _ => pow2(64) + U256::from(5u64) };
                if self.r.chance(1, 2) { self.pw(&v); self.op(0x56); } else { self.pu(1); self.pw(&v); self.op(0x57); }
                self.items.push(It::Label(target));
            }
            _ => {
                // JUMPI with a zero condition and an invalid destination: falls through
                self.pu(0); self.pw(&U256::MAX); self.op(0x57);
                self.items.push(It::Label(target));
            }
        }
    }

    fn frag_mem(&mut self) {
        for _ in 0..(1 + self.r.below(4)) {
            match self.r.below(7) {
                0 => { let v = self.value(); self.pw(&v); let o = self.mem_off(); self.pu(o); self.op(0x52); }
                1 => { let v = self.value(); self.pw(&v); let o = self.mem_off(); self.pu(o); self.op(0x53); }
                2 => { let o = self.mem_off(); self.pu(o); self.op(0x51); self.store_result(); }
                3 => { self.op(0x59); self.store_result(); }
                4 | 5 => {
                    // MCOPY(dst, src, len), overlapping regions likely
                    let len = match self.r.below(4) { 0 => 0, 1 => self.r.below(40), 2 => 32 * self.r.below(8), _ => self.r.below(300) };
                    let src = self.mem_off(); let dst = if self.r.chance(1, 2) { src + self.r.below(40) } else { self.mem_off() };
                    self.pu(len); self.pu(src); self.pu(dst); self.op(0x5e);
                }
                _ => { let o = self.mem_off(); self.pu(o); self.op(0x51); self.op(0x50); self.op(0x59); self.store_result(); }
            }
        }
    }

    fn frag_storage(&mut self) {
        for _ in 0..(1 + self.r.below(4)) {
            let k = self.r.pick(&self.keys.clone()).clone();
            match self.r.below(6) {
                0 | 1 => {
                    let v = if self.r.chance(1, 4) { U256::ZERO } else { self.value() };
                    self.pw(&v); self.pw(&k); self.op(0x55);
                }
                2 => { self.pw(&k); self.op(0x54); self.store_result(); }
                3 => { let v = if self.r.chance(1, 4) { U256::ZERO } else { self.value() }; self.pw(&v); self.pw(&k); self.op(0x5d); }
                4 => { self.pw(&k); self.op(0x5c); self.store_result(); }
                _ => {
                    // key computed at run time: keccak-free "mapping": key = k + calldata word
                    self.operand(); self.pw(&k); self.op(0x01); self.op(0x80); self.op(0x54); self.pu(1); self.op(0x01); self.op(0x90); self.op(0x55);
                }
            }
        }
    }

    fn copy_args(&mut self, data_len_hint: u64) {
        let len = match self.r.below(5) { 0 => 0, 1 => self.r.below(40), 2 => 32, 3 => self.r.below(200), _ => 1 + self.r.below(4) };
        let off: U256 = match self.r.below(8) {
            0 => U256::ZERO,
            1 => U256::from(self.r.below(data_len_hint + 1)),
            2 => U256::from(data_len_hint.saturating_sub(self.r.below(8))),
            3 => U256::from(data_len_hint + self.r.below(40)),
            4 => U256::from(1u64 << 32),
            5 => U256::MAX,
            6 => pow2(64),
            _ => U256::from(self.r.below(64)),
        };
        let dst = self.mem_off();
        self.pu(len); self.pw(&off); self.pu(dst);
    }

    fn frag_copy(&mut self) {
        match self.r.below(9) {
            0 | 1 => { self.copy_args(128); self.op(0x37); }
            2 | 3 => { self.copy_args(300); self.op(0x39); }
            4 => { self.op(0x36); self.store_result(); self.op(0x38); self.store_result(); }
            5 => {
                let off = match self.r.below(5) { 0 => U256::from(self.r.below(200)), 1 => U256::from(1u64 << 32), 2 => U256::MAX, 3 => pow2(64), _ => U256::from(self.r.below(40)) };
                self.pw(&off); self.op(0x35); self.store_result();
            }
            _ => {
                // identity precompile → return data, then RETURNDATASIZE / RETURNDATACOPY
                let isz = match self.r.below(4) { 0 => 0, 1 => 32, _ => self.r.below(100) };
                let ioff = 32 * self.r.below(16);
                let osz = match self.r.below(3) { 0 => 0, 1 => isz, _ => self.r.below(120) };
                let ooff = self.mem_off();
                self.pu(osz); self.pu(ooff); self.pu(isz); self.pu(ioff); self.pu(4);
                let gas = self.r.below(3) * 1000; self.pu(gas);
                self.op(0xfa); self.store_result();
                self.ret_len = Some(isz);
                self.op(0x3d); self.store_result();
            }
        }
        if let Some(rl) = self.ret_len {
            if self.r.chance(1, 2) {
                // RETURNDATACOPY(dst, off, len): mostly in bounds, sometimes one past the end
                let bad = self.r.chance(1, 8);
                let off = self.r.below(rl + 1);
                let len = if bad { rl - off + 1 + self.r.below(3) } else { self.r.below(rl - off + 1) };
                let dst = self.mem_off();
                self.pu(len); self.pu(off); self.pu(dst); self.op(0x3e);
            }
        } else if self.r.chance(1, 6) {
            // no call yet: return data is empty; (0,0) is fine, anything else fails
            let len = if self.r.chance(2, 3) { 0 } else { 1 };
            let off = if self.r.chance(2, 3) { 0 } else { 1 };
            self.pu(len); self.pu(off); self.pu(0); self.op(0x3e);
        }
    }

    fn frag_hash(&mut self) {
        self.uses_hash = true;
        let len = *self.r.pick(&[0u64, 1, 31, 32, 33, 64, 100, 135, 136, 137, 200, 272]);
        let off = if self.r.chance(1, 2) { 32 * self.r.below(16) } else { self.mem_off() };
        self.pu(len); self.pu(off); self.op(0x20);
        if self.r.chance(1, 4) {
            // hash-derived storage slot
            self.pu(7); self.op(0x90); self.op(0x55);
        } else {
            self.store_result();
        }
    }

    fn frag_stack(&mut self) {
        let k = 2 + self.r.below(16);
        for _ in 0..k { let v = self.value(); self.pw(&v); }
        let mut depth = k;
        for _ in 0..(2 + self.r.below(10)) {
            match self.r.below(3) {
                0 if depth < 40 => { let n = 1 + self.r.below(depth.min(16)); self.op(0x7f + n as u8); depth += 1; }
                1 if depth >= 2 => { let n = 1 + self.r.below((depth - 1).min(16)); self.op(0x8f + n as u8); }
                _ if depth > 2 => { self.op(0x50); depth -= 1; }
                _ => {}
            }
        }
        // fold what is left into one word, order-sensitive
        while depth > 1 {
            let o = *self.r.pick(&[0x03u8, 0x18, 0x01, 0x02]);
            self.op(o); depth -= 1;
            if depth > 1 && self.r.chance(1, 3) { self.pu(3); self.op(0x02); }
        }
        self.store_result();
        if self.r.chance(1, 40) {
            // underflow: the stack is empty here
            let n = 1 + self.r.below(16);
            let o = if self.r.chance(1, 2) { 0x7f + n as u8 } else { 0x8f + n as u8 };
            self.op(o);
        }
    }

    fn frag_pc_misc(&mut self) {
        self.op(0x58); self.store_result();
        if self.r.chance(1, 2) { self.op(0x5b); }
    }

    fn finish(&mut self) {
        let size = match self.r.below(6) { 0 => 0, 1 => 32, 2 => self.res_off.max(32), 3 => 0x400, 4 => self.r.below(0x500), _ => 0x400 + 32 };
        let off = if self.r.chance(1, 8) { self.mem_off() } else { 0 };
        match self.r.below(40) {
            0..=21 => { self.pu(size); self.pu(off); self.op(0xf3); }
            22..=25 => { self.pu(size); self.pu(off); self.op(0xfd); }
            26 | 27 => self.op(0x00),
            28 | 29 => return,
            30 => self.op(0xfe),
            31 => { let o = *self.r.pick(&[0x0cu8, 0x1f, 0x21, 0x49, 0xa5, 0xef, 0xf2, 0xfb, 0xfc]); self.op(o); }
            32 | 33 => {
                // offset / size beyond u32: fails before allocating
                // (never u32::MAX itself or anything just below it: that is a legal 4 GiB allocation)
                let big = *self.r.pick(&[1u64 << 32, u64::MAX, (1 << 32) + 31]);
                if self.r.chance(1, 2) { self.pu(32); self.pu(big); } else { self.pu(big); self.pu(0); }
                let o = if self.r.chance(1, 2) { 0xf3 } else { 0xfd }; self.op(o);
            }
            34 | 35 | 36 => {
                // truncated PUSH at the very end of the code
                let n = 2 + self.r.below(31);
                let have = self.r.below(n);
                let mut raw = vec![0x5f + n as u8];
                for _ in 0..have { raw.push(self.r.next() as u8); }
                self.items.push(It::Raw(raw));
                return;
            }
            37 => {
                // push until the stack limit is hit
                let l = self.label();
                self.items.push(It::Label(l)); self.op(0x58); self.items.push(It::PushLabel(l)); self.op(0x56);
            }
            _ => { self.pu(size); self.pu(off); self.op(0xf3); }
        }
        // code after the exit is data for CODECOPY and must not be executed
        let tail = self.r.below(40);
        let mut raw = vec![];
        for _ in 0..tail { raw.push(self.r.next() as u8); }
        self.items.push(It::Raw(raw));
    }
}

struct Program {
    code: Vec<u8>,
    labels: BTreeMap<usize, usize>,
    cd_slots: Vec<CdSlot>,
    uses_hash: bool,
}

fn gen_program(r: &mut Rng) -> Program {
    let mut keys = vec![U256::ZERO, U256::ONE, U256::from(2u64), U256::MAX, pow2(255)];
    keys.push(rand_word(r));
    // the code always starts with PC POP (never 0xEF, never empty, and offset 0 is not a jump destination:
    // a zero read from short call data must not restart the program)
    let mut g = Gen { r, items: vec![It::Op(0x58), It::Op(0x50)], labels: 0, res_off: 0, cd_slots: vec![], keys, ret_len: None, uses_hash: false };
    let n = 2 + g.r.below(10);
    for _ in 0..n {
        match g.r.below(20) {
            0..=4 => g.frag_arith(),
            5 | 6 => g.frag_loop(),
            7 | 8 | 9 => g.frag_jump(),
            10 | 11 => g.frag_mem(),
            12 | 13 => g.frag_storage(),
            14 | 15 | 16 => g.frag_copy(),
            17 => g.frag_hash(),
            18 => g.frag_stack(),
            _ => g.frag_pc_misc(),
        }
    }
    g.finish();
    let (code, labels) = assemble(&g.items);
    Program { code, labels, cd_slots: g.cd_slots, uses_hash: g.uses_hash }
}

fn gen_calldata(r: &mut Rng, p: &Program, variant: u64) -> Vec<u8> {
    let base = 32 * p.cd_slots.len();
    let extra = r.below(100) as usize;
    let mut cd: Vec<u8> = (0..base + extra).map(|_| r.next() as u8).collect();
    for (i, s) in p.cd_slots.iter().enumerate() {
        let w = match s {
            CdSlot::Label(l) => {
                let pos = p.labels[l] as u64;
                // later invocations perturb the destination: one off, far away, the same
                match if variant == 0 { 9 } else { r.below(10) } {
                    0 => U256::from(pos + 1),
                    1 => U256::from(pos.saturating_sub(1)),
                    2 => U256::from(pos) + pow2(32),
                    _ => U256::from(pos),
                }
            }
            CdSlot::Value(v) => if variant == 0 || r.chance(1, 2) { *v } else { let c = r.below(N_CLASSES as u64) as usize; operand(r, c) },
        };
        cd[32 * i..32 * i + 32].copy_from_slice(&w.to_big_endian());
    }
    // sometimes shorter than the generator assumed: reads beyond the end are zero
    if variant > 0 && r.chance(1, 5) {
        let n = r.below(cd.len() as u64 + 1) as usize;
        cd.truncate(n);
    }
    cd
}

fn run_program(cx: &mut Ctx, seq: u64, seen: &mut HashSet<u64>) {
    let mut r = seq_rng(cx.cfg.seed, seq);
    if std::env::var("C17_TRACE").is_ok() { eprintln!("seq {}", seq); }
    let p = gen_program(&mut r);
    cx.rep.sequences += 1;
    let code_hex = hex_bytes(&p.code);
    let mut lines: Vec<String> = vec![format!("# code {}", code_hex)];
    let contract = match cx.evm.deploy(&p.code) {
        Ok(c) => c,
        Err(e) => {
            let hdr = replay_header(cx.cfg, seq, "creating the contract failed");
            let path = write_replay("C17", &format!("{}-{}", cx.cfg.seed, seq), &hdr, &[format!("# code {}", code_hex), e.clone()]);
            cx.rep.violations.push(Violation { kind: "contract-creation-failed".into(), detail: e, replay: path });
            return;
        }
    };
    let mut hashes: Vec<(Vec<u8>, [u8; 32])> = vec![];
    let mut agree = true;
    let mut nontrivial = false;
    let ninv = 1 + r.below(3);
    for inv in 0..ninv {
        // without the model only the unperturbed call data is used: it terminates by construction
        // (forward jumps to the generated labels, bounded loops); natively there is no gas
        let cd = gen_calldata(&mut r, &p, if cx.lean.is_some() { inv } else { 0 });
        let before = cx.evm.storage_dump(&contract);
        if std::env::var("C17_TRACE").is_ok() { eprintln!("run {} {} {}", code_hex, hex_bytes(&cd), show_storage(&before)); }
        // the model runs first: a program that does not terminate within the model's fuel is not run natively
        let mut model: Option<(String, String)> = None;
        if let Some(l) = cx.lean.as_mut() {
            let mut m;
            let mut line;
            let mut guard = 0;
            loop {
                let hs = if hashes.is_empty() { "-".to_string() } else {
                    hashes.iter().map(|(i, o)| format!("{}:{}", hex_bytes(i), hx(&U256::from_big_endian(o)))).collect::<Vec<_>>().join(",")
                };
                line = format!("run {} {} {} {}", code_hex, hex_bytes(&cd), show_storage(&before), hs);
                m = l.ask(&line).unwrap();
                if let Some(rest) = m.strip_prefix("needhash ") {
                    let input = if rest == "-" { vec![] } else { hex::decode(rest).unwrap() };
                    let h = keccak256(&input);
                    hashes.push((input, h));
                    guard += 1;
                    if guard > 40 { break; }
                    continue;
                }
                break;
            }
            if m.starts_with("needhash") {
                cx.rep.branch("skipped-too-many-hash-inputs");
                continue;
            }
            if m.starts_with("err out_of_fuel") {
                cx.rep.branch("skipped-model-out-of-fuel");
                continue;
            }
            model = Some((line, m));
        }
        let out = cx.evm.invoke(&contract, &cd);
        let after = cx.evm.storage_dump(&contract);
        cx.rep.ops += 1;
        cx.rep.op("invoke");
        cx.rep.branch(&out.class);
        let impl_line = match out.class.as_str() {
            "return" | "revert" => format!("ok {} {} | st {}", out.class, hex_bytes(&out.data), show_storage(&after)),
            c => format!("err {} | st {}", c, show_storage(&after)),
        };
        let hdr = replay_header(cx.cfg, seq, &format!("invocation {} of the generated program; implementation answered: {}", inv, trunc(&impl_line)));
        if out.class == "return" { cx.rep.ops_ok += 1; } else { cx.rep.err(&out.class); }
        // oracle (no model): no panic, only the defined failure classes, a failed run leaves the storage alone
        if out.panicked || out.class.starts_with("exit_") {
            lines.push(format!("run {} {} {} -", code_hex, hex_bytes(&cd), show_storage(&before)));
            let path = write_replay("C17", &format!("{}-{}", cx.cfg.seed, seq), &hdr, &lines);
            let kind = if out.panicked { "panic" } else { "undefined-failure-class" };
            cx.rep.violations.push(Violation { kind: kind.into(), detail: format!("{} {}", out.class, out.msg), replay: path });
            return;
        }
        if out.class != "return" && before != after {
            lines.push(format!("run {} {} {} -", code_hex, hex_bytes(&cd), show_storage(&before)));
            let path = write_replay("C17", &format!("{}-{}", cx.cfg.seed, seq), &hdr, &lines);
            cx.rep.violations.push(Violation { kind: "failed-run-changed-storage".into(), detail: format!("{} -> {}", show_storage(&before), show_storage(&after)), replay: path });
            return;
        }
        if (out.class == "return" || out.class == "revert") && (!out.data.is_empty() || before != after) {
            nontrivial = true;
        }
        if let Some((line, m)) = model {
            lines.push(line.clone());
            if m != impl_line {
                agree = false;
                // the model is the specification's reading of these instructions (its word functions are
                // proved equal to the Yellow Paper definitions): a different outcome, data or storage is
                // a property violation with this program + call data as the replay
                let mut ls = lines.clone();
                ls.push(format!("# implementation: {}", impl_line));
                ls.push(format!("# lean model    : {}", m));
                let path = write_replay("C17", &format!("{}-{}", cx.cfg.seed, seq), &hdr, &ls);
                cx.rep.violations.push(Violation {
                    kind: "program-outcome-differs-from-spec".into(),
                    detail: format!("impl `{}` model `{}`", trunc(&impl_line), trunc(&m)),
                    replay: path.clone(),
                });
                cx.rep.disagreements.push(Disagreement { seq, step: inv, op: trunc(&line), impl_out: trunc(&impl_line), model_out: trunc(&m), replay: path });
                return;
            }
        } else {
            lines.push(format!("run {} {} {} -", code_hex, hex_bytes(&cd), show_storage(&before)));
        }
    }
    if agree && cx.lean.is_some() { cx.rep.traces_validated += 1; }
    if nontrivial && seen.insert(hash_lines(&lines)) { cx.rep.distinct_nontrivial += 1; }
    if p.uses_hash { cx.rep.branch("program-with-keccak"); }
    if cx.rep.samples.len() < 6 && nontrivial {
        cx.rep.samples.push(json!({"seq": seq, "code": trunc(&code_hex), "invocations": ninv}));
    }
}

fn trunc(s: &str) -> String {
    if s.len() > 600 { format!("{}…[{} chars]", &s[..600], s.len()) } else { s.to_string() }
}

pub const PROGRAM_SEQ_BASE: u64 = 1000;

pub fn run(cfg: &RunCfg) -> Report {
    let mut rep = Report::new("C17", cfg.seed, &cfg.tier);
    rep.nontrivial_rule = "sequences 0..25 = one instruction each over all operand-class pairs (non-trivial when every case returned a word); sequences >= 1000 = one generated program with 1-3 invocations (non-trivial when an invocation returned/reverted with data or changed storage); distinct = distinct hash of the op lines".into();
    // self-test of the harness's own Keccak against the known vectors
    assert_eq!(hex::encode(keccak256(b"")), "c5d2460186f7233c927e7db2dcc703c0e500b653ca82273b7bfad8045d85a470");
    assert_eq!(hex::encode(keccak256(b"abc")), "4e03657aea45a94fc7d47ba826c8d667c0d1e6e33a64a036ec44f58fa12d6c45");
    let lean = if cfg.use_lean { Some(LeanDriver::spawn("evm").expect("lean driver")) } else { None };
    let mut cx = Ctx { cfg, rep, lean, evm: Evm::new() };
    // ad-hoc: run one given program (hex) on both sides and print the two answers
    if let Ok(code_hex) = std::env::var("C17_CODE") {
        let code = hex::decode(code_hex.trim()).expect("C17_CODE hex");
        let cd = hex::decode(std::env::var("C17_CD").unwrap_or_default().trim()).expect("C17_CD hex");
        let c = cx.evm.deploy(&code).expect("deploy");
        let out = cx.evm.invoke(&c, &cd);
        println!("impl : {} {} | st {}", out.class, hex_bytes(&out.data), show_storage(&cx.evm.storage_dump(&c)));
        if let Some(l) = cx.lean.as_mut() {
            let mut hashes: Vec<String> = vec![];
            loop {
                let hs = if hashes.is_empty() { "-".to_string() } else { hashes.join(",") };
                let m = l.ask(&format!("run {} {} - {}", hex_bytes(&code), hex_bytes(&cd), hs)).unwrap();
                if let Some(rest) = m.strip_prefix("needhash ") {
                    let input = if rest == "-" { vec![] } else { hex::decode(rest).unwrap() };
                    hashes.push(format!("{}:{}", hex_bytes(&input), hx(&U256::from_big_endian(&keccak256(&input)))));
                    continue;
                }
                println!("model: {}", m);
                break;
            }
        }
        return cx.rep;
    }
    let nprog = if cfg.thorough() { 30000 } else { 2000 } * cfg.budget;
    let mut seen = HashSet::new();
    match cfg.only_seq {
        Some(k) if k < PROGRAM_SEQ_BASE => {
            if (k as usize) < OPS.len() { run_opcode(&mut cx, k as usize); }
        }
        Some(k) => run_program(&mut cx, k, &mut seen),
        None => {
            for i in 0..OPS.len() {
                run_opcode(&mut cx, i);
            }
            for k in 0..nprog {
                // a fresh VM now and then keeps the block store small
                if k % 500 == 499 { cx.evm = Evm::new(); }
                run_program(&mut cx, PROGRAM_SEQ_BASE + k, &mut seen);
                if cx.rep.violations.len() >= 5 { break; }
            }
        }
    }
    cx.rep.notes.push("per-instruction results are compared with a big-integer transcription of the Yellow Paper (harness oracle) and with xImpl and xSpec of the Lean model; programs are compared with the Lean interpreter (hash oracle = the harness's own Keccak-256)".into());
    cx.rep
}
