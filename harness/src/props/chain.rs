//! Chain run shared by C01 (conservation & solvency), C03 (collateral ledgers) and C05 (cron):
//! real singleton actors + miners in the vvm, user messages placed around deadline boundaries,
//! the cron tick run for every epoch that has queued work (and densely in some sequences),
//! fault plan on tolerated nested sends, monitors after every message and tick.
use super::{RunCfg, hash_lines, seq_rng};
use crate::chain::{Chain, MinerView, PowerView};
use crate::lean::LeanDriver;
use crate::report::{Disagreement, Report, Violation, write_replay};
use crate::rng::Rng;
use crate::vvm::FaultRule;
use crate::world::{Applied, exit_class};
use fil_actor_market::State as MarketState;
use fil_actors_runtime::{
    BURNT_FUNDS_ACTOR_ADDR, REWARD_ACTOR_ADDR, STORAGE_MARKET_ACTOR_ADDR, STORAGE_POWER_ACTOR_ADDR,
};
use fvm_shared::econ::TokenAmount;
use num_traits::Zero;
use serde_json::json;
use std::collections::{BTreeMap, BTreeSet, HashSet};
use vm_api::VM;
use vm_api::trace::InvocationTrace;
use vm_api::util::get_state;

#[derive(Clone, Copy, PartialEq, Eq, Debug)]
pub enum Which {
    C01,
    C03,
    C05,
}

impl Which {
    fn id(&self) -> &'static str {
        match self {
            Which::C01 => "C01",
            Which::C03 => "C03",
            Which::C05 => "C05",
        }
    }
}

struct Snap {
    total: TokenAmount,
    miners: Vec<MinerView>,
    power: PowerView,
}

fn snap(c: &Chain) -> Snap {
    Snap {
        total: c.w.total_balance(),
        miners: c.miners.iter().map(|m| c.miner_view(&m.id)).collect(),
        power: c.power_view(),
    }
}

fn walk<'a>(t: &'a InvocationTrace, out: &mut Vec<&'a InvocationTrace>) {
    out.push(t);
    for s in &t.subinvocations {
        walk(s, out);
    }
}

/// serialise an invocation tree for the Lean VM model: (from to value ok [children])
fn tree_line(t: &InvocationTrace, out: &mut String) {
    let to = t.to.id().unwrap_or(u64::MAX);
    out.push_str(&format!("( {} {} {} {} ", t.from, to, t.value.atto(), if t.exit_code.is_success() { 1 } else { 0 }));
    for s in &t.subinvocations {
        tree_line(s, out);
    }
    out.push_str(") ");
}

struct Ctx<'a> {
    which: Which,
    cfg: &'a RunCfg,
    seq: u64,
    rep: &'a mut Report,
    lines: Vec<String>,
    stop: bool,
    /// creation deposits locked by constructors and never added to the network total (F1)
    unaccounted: TokenAmount,
    known_seen: HashSet<String>,
    lean: Option<&'a mut LeanDriver>,
    agree: bool,
    nontrivial: u32,
    /// per miner: its proving-deadline callback ran since its cron was (re)activated
    caught_up: Vec<bool>,
    /// C03 ledger correspondence: per miner the Lean model's netTotal and unaccounted deposit
    ledger_net: Vec<TokenAmount>,
    ledger_unacc: Vec<TokenAmount>,
    ledger_synced: Vec<bool>,
    ledger_ops: u64,
}

impl<'a> Ctx<'a> {
    fn violation(&mut self, prop: Which, kind: &str, detail: String) {
        if prop != self.which {
            // a different property's monitor: recorded as a note only
            let n = format!("[{}] {}: {}", prop.id(), kind, detail);
            if self.rep.notes.len() < 40 && !self.rep.notes.contains(&n) {
                self.rep.notes.push(n);
            }
            return;
        }
        // one violation of each kind per sequence
        let key = format!("{}:{}", self.seq, kind);
        if !self.known_seen.insert(key) {
            return;
        }
        let hdr = vec![
            format!("property {} seed {} seq {} (re-run: ba_harness {} --seed {} --only-seq {})",
                self.which.id(), self.cfg.seed, self.seq, self.which.id().to_lowercase(), self.cfg.seed, self.seq),
            format!("violation {}: {}", kind, detail),
        ];
        let path = write_replay(self.which.id(), &format!("{}-{}-{}", self.cfg.seed, self.seq, kind), &hdr, &self.lines);
        self.rep.violations.push(Violation { kind: kind.into(), detail, replay: path });
        // known findings do not stop the sequence; anything else does
        if !kind.starts_with("F1-") && !kind.starts_with("F3-") {
            self.stop = true;
        }
    }
}

fn pledge_update_failed(traces: &[InvocationTrace]) -> bool {
    let mut all = vec![];
    for t in traces {
        walk(t, &mut all);
    }
    all.iter().any(|t| {
        t.to == STORAGE_POWER_ACTOR_ADDR
            && t.method == fil_actor_power::Method::UpdatePledgeTotal as u64
            && !t.exit_code.is_success()
    })
}

/// Monitors after one top-level message (or tick). `is_tick`: the message was the cron tick.
#[allow(clippy::too_many_arguments)]
fn monitors(c: &Chain, cx: &mut Ctx, label: &str, res: &Applied, before: &Snap, after: &Snap,
            traces: &[InvocationTrace], errors: &[(u64, fvm_shared::address::Address, u64, u32, String)],
            is_tick: bool, is_create: bool, injected: u64) {
    // ---------------- C01: conservation & solvency
    if res.panicked {
        cx.violation(cx.which, "panic", format!("{}: {}", label, res.message));
        return;
    }
    if after.total != before.total {
        cx.violation(Which::C01, "fil-not-conserved", format!("{}: total {} -> {}", label, before.total.atto(), after.total.atto()));
    }
    for (i, m) in after.miners.iter().enumerate() {
        if !m.exists { continue; }
        let need = &m.pcd + &m.lf + &m.ip;
        if m.balance < need || m.pcd.is_negative() || m.lf.is_negative() || m.ip.is_negative() || m.debt.is_negative() {
            cx.violation(Which::C01, "miner-insolvent", format!("{}: miner {} balance {} < pcd {} + lf {} + ip {} (debt {})", label, i, m.balance.atto(), m.pcd.atto(), m.lf.atto(), m.ip.atto(), m.debt.atto()));
        }
    }
    {
        let mst: MarketState = get_state(&c.w.vm, &STORAGE_MARKET_ACTOR_ADDR).unwrap();
        let bal = c.w.balance(&STORAGE_MARKET_ACTOR_ADDR);
        let store = c.w.vm.store.as_ref();
        if let Ok(t) = fil_actor_market::balance_table::BalanceTable::from_root(store, &mst.escrow_table, "escrow table") {
            if let Ok(total) = t.total() {
                if bal < total {
                    cx.violation(Which::C01, "market-insolvent", format!("{}: market balance {} < Σ escrow {}", label, bal.atto(), total.atto()));
                }
            }
        }
    }
    // ---------------- C03: ledgers
    for (i, m) in after.miners.iter().enumerate() {
        if !m.exists { continue; }
        if m.pcd != m.precommit_sum {
            cx.violation(Which::C03, "pcd-ne-sum-of-precommit-deposits", format!("{}: miner {} pcd {} Σ {}", label, i, m.pcd.atto(), m.precommit_sum.atto()));
        }
        if m.lf != m.vest_sum {
            cx.violation(Which::C03, "locked-funds-ne-vesting-table", format!("{}: miner {} lf {} Σ {}", label, i, m.lf.atto(), m.vest_sum.atto()));
        }
        if m.ip != m.sector_pledge_sum {
            cx.violation(Which::C03, "initial-pledge-ne-sector-sum", format!("{}: miner {} ip {} Σ {}", label, i, m.ip.atto(), m.sector_pledge_sum.atto()));
        }
    }
    if after.power.total_pledge.is_negative() {
        cx.violation(Which::C03, "network-pledge-negative", format!("{}: {}", label, after.power.total_pledge.atto()));
    }
    if res.ok() {
        // per-message delta: Δ total_pledge = Σ_m Δ(ip + lf)
        let mut d = TokenAmount::zero();
        for (i, m) in after.miners.iter().enumerate() {
            let b = before.miners.get(i).cloned().unwrap_or_default();
            d += (&m.ip + &m.lf) - (&b.ip + &b.lf);
        }
        let dt = &after.power.total_pledge - &before.power.total_pledge;
        if d != dt {
            if is_create && dt.is_zero() && d.is_positive() {
                cx.unaccounted += &d;
                cx.violation(Which::C03, "F1-creation-deposit-not-in-network-pledge-total", format!("{}: miner locked {} at creation, network total unchanged", label, d.atto()));
            } else {
                cx.violation(Which::C03, "network-pledge-delta-mismatch", format!("{}: Δtotal {} vs ΣΔ(ip+lf) {}", label, dt.atto(), d.atto()));
            }
        }
    }
    // a failed nested UpdatePledgeTotal makes a valid operation fail (or a cron callback fail)
    if pledge_update_failed(traces) {
        // attributable to F1 iff the shortfall is covered by the unaccounted creation deposits
        let mut sum = TokenAmount::zero();
        for m in before.miners.iter() { sum += &m.ip + &m.lf; }
        let gap = &sum - &before.power.total_pledge;
        if gap.is_positive() && gap <= cx.unaccounted {
            cx.violation(Which::C03, "F1-pledge-total-underflow-blocks-operation", format!("{}: UpdatePledgeTotal failed; Σ(ip+lf) − total = {} (unaccounted creation deposits {})", label, gap.atto(), cx.unaccounted.atto()));
            if is_tick {
                cx.violation(Which::C05, "F1-cron-callback-failed-on-pledge-total-underflow", format!("{}", label));
            }
        } else {
            cx.violation(Which::C03, "pledge-total-update-failed", format!("{}: gap {}", label, gap.atto()));
        }
    }
    // ---------------- C05: cron
    for e in errors {
        if e.4.contains("balance invariants broken") {
            cx.violation(Which::C05, "balance-invariants-broken", format!("{}: from {} to {} method {}: {}", label, e.0, e.1, e.2, e.4));
        }
    }
    if is_tick {
        if !res.ok() {
            cx.violation(Which::C05, "cron-tick-failed", format!("{}: {} {}", label, res.code, res.message));
        }
        let mut all = vec![];
        for t in traces { walk(t, &mut all); }
        let failed: Vec<_> = all.iter().filter(|t| !t.exit_code.is_success()).collect();
        // failures forced by the fault plan are expected; any other failing sub-invocation of the tick is not
        if failed.len() as u64 > injected {
            let f1 = pledge_update_failed(traces);
            if !f1 {
                let d = failed.iter().map(|t| format!("{}->{} m{} exit {}", t.from, t.to, t.method, t.exit_code.value())).collect::<Vec<_>>().join("; ");
                cx.violation(Which::C05, "cron-subcall-failed", format!("{}: {}", label, d));
            }
        }
        for (id, _) in before.power.claims.iter() {
            if !after.power.claims.contains_key(id) {
                let f1 = pledge_update_failed(traces);
                cx.violation(Which::C05, if f1 { "F1-claim-lost-in-cron" } else { "claim-lost-in-cron" }, format!("{}: miner {}", label, id));
            }
        }
    }
    let next_epoch = c.epoch() + if is_tick { 1 } else { 0 };
    while cx.caught_up.len() < after.miners.len() { cx.caught_up.push(false); }
    for (i, m) in after.miners.iter().enumerate() {
        // `caught_up`: since its cron was last activated the miner's recorded deadline has been seen
        // to contain the current epoch.  A miner activated late (F3) has a stale record until its
        // proving-period start is refreshed; once fresh, staleness is a genuine violation.
        let was = before.miners.get(i).map(|b| b.cron_active).unwrap_or(false);
        if m.cron_active && !was { cx.caught_up[i] = false; }
        if m.cron_active {
            let open = m.proving_period_start + (m.current_deadline as i64) * c.policy.wpost_challenge_window;
            let close = open + c.policy.wpost_challenge_window;
            if open <= next_epoch && next_epoch < close { cx.caught_up[i] = true; }
        }
    }
    for (i, m) in after.miners.iter().enumerate() {
        if !m.exists { continue; }
        let id = c.miners[i].id.id().unwrap();
        if !after.power.claims.contains_key(&id) { continue; } // claim already lost (reported above)
        let evs = after.power.cron_events.get(&id).cloned().unwrap_or_default();
        let n_dl = evs.iter().filter(|(_, t)| *t == 1).count();
        if m.cron_active && n_dl != 1 {
            cx.violation(Which::C05, "active-miner-without-exactly-one-deadline-callback", format!("{}: miner {} has {} proving-deadline events", label, i, n_dl));
        }
        if !m.cron_active && n_dl != 0 {
            cx.violation(Which::C05, "inactive-miner-with-deadline-callback", format!("{}: miner {} has {} events", label, i, n_dl));
        }
        if m.continue_cron && !m.cron_active {
            let only_lf = m.pcd.is_zero() && m.ip.is_zero() && m.n_live == 0 && m.n_precommits == 0;
            if only_lf {
                cx.violation(Which::C05, "F3-vesting-funds-without-deadline-callback", format!("{}: miner {} lf {} cron inactive", label, i, m.lf.atto()));
            } else {
                cx.violation(Which::C05, "funds-without-deadline-callback", format!("{}: miner {} pcd {} ip {} lf {}", label, i, m.pcd.atto(), m.ip.atto(), m.lf.atto()));
            }
        }
        if m.cron_active && is_tick {
            // after the tick the recorded deadline must contain the next epoch
            let open = m.proving_period_start + (m.current_deadline as i64) * c.policy.wpost_challenge_window;
            let close = open + c.policy.wpost_challenge_window;
            if !(open <= next_epoch && next_epoch < close) {
                // a miner whose cron was activated late (F3) keeps a stale record until its first callback
                let kind = if cx.caught_up[i] { "deadline-does-not-contain-next-epoch" } else { "F3-stale-deadline-record-until-first-callback" };
                cx.violation(Which::C05, kind, format!("{}: miner {} deadline [{},{}) next epoch {}", label, i, open, close, next_epoch));
            }
        }
        if let Some(minexp) = m.min_expiration {
            if is_tick && m.cron_active && minexp + c.policy.wpost_proving_period + c.policy.wpost_challenge_window < next_epoch {
                cx.violation(Which::C05, "expired-sector-not-processed", format!("{}: miner {} sector expired at {} still live at {}", label, i, minexp, next_epoch));
            }
        }
    }
}

/// Run one message with snapshot/monitors/lean replay of the invocation tree.
fn exec<F: FnOnce(&mut Chain) -> Applied>(c: &mut Chain, cx: &mut Ctx, label: String, is_tick: bool, is_create: bool, f: F) -> Applied {
    let before = snap(c);
    c.w.take_trace();
    c.w.vm.take_errors();
    let hits0 = c.w.vm.fault_plan.borrow().hits;
    let res = f(c);
    let injected = c.w.vm.fault_plan.borrow().hits - hits0;
    let traces = c.w.take_trace();
    let errors = c.w.vm.take_errors();
    let after = snap(c);
    cx.rep.ops += 1;
    let opname = label.split(' ').next().unwrap().to_string();
    cx.rep.op(&opname);
    if res.ok() { cx.rep.ops_ok += 1; } else { cx.rep.err(&format!("{}:{}", opname, exit_class(res.code))); }
    cx.lines.push(format!("{} @{} -> {}", label, c.epoch(), if res.ok() { "ok".to_string() } else { format!("err {}", res.code.value()) }));
    if res.ok() && !is_tick { cx.nontrivial += 1; }
    monitors(c, cx, &label, &res, &before, &after, &traces, &errors, is_tick, is_create, injected);
    if cx.which == Which::C05 && !res.panicked {
        if cx.lean.is_some() { cron_mirror(c, cx, &label, &before, &after, &traces, is_tick); }
        if !cx.stop { et_mirror(c, cx, &label, &res, &before, &after, &traces, is_tick); }
    }
    if cx.which == Which::C03 && !res.panicked && cx.lean.is_some() {
        ledger_mirror(c, cx, &label, &res, &before, &after, &traces);
    }
    // Lean VM model: replay the invocation tree on the balances before and compare balances after
    if cx.which == Which::C01 && !res.panicked {
        if let (Some(l), Some(t)) = (cx.lean.as_mut(), traces.last()) {
            let mut all = vec![];
            walk(t, &mut all);
            let mut ids: Vec<u64> = vec![];
            for n in all.iter() { ids.push(n.from); if let Ok(i) = n.to.id() { ids.push(i); } }
            ids.sort(); ids.dedup();
            // balances before: recover from `after` minus the model's own delta is circular, so the
            // harness supplies the real balances observed before the message
            let mut line = String::from("replay ");
            let bal_before: BTreeMap<u64, TokenAmount> = BAL_BEFORE.with(|b| b.borrow().clone());
            for id in ids.iter() {
                let b = bal_before.get(id).cloned().unwrap_or_default();
                line.push_str(&format!("{}={} ", id, b.atto()));
            }
            line.push_str("| ");
            tree_line(t, &mut line);
            if let Ok(ans) = l.ask(&line) {
                let mut got = String::new();
                for id in ids.iter() {
                    let b = c.w.balance(&fvm_shared::address::Address::new_id(*id));
                    got.push_str(&format!("{}={} ", id, b.atto()));
                }
                if ans.trim() != got.trim() {
                    cx.agree = false;
                    let hdr = vec![format!("property C01 seed {} seq {}", cx.cfg.seed, cx.seq), format!("VM-model trace replay disagrees at: {}", label)];
                    let path = write_replay("C01", &format!("corr-{}-{}", cx.cfg.seed, cx.seq), &hdr, &cx.lines);
                    cx.rep.disagreements.push(Disagreement { seq: cx.seq, step: cx.rep.ops, op: line.chars().take(300).collect(), impl_out: got, model_out: ans, replay: path });
                    cx.stop = true;
                }
            }
        }
    }
    res
}

/// C05 correspondence: the schedule arithmetic of activation and of every proving-deadline
/// callback (new proving-period start, new current deadline, epoch of the next callback) is
/// recomputed by the Lean `BA.Cron` model and compared with the real miner / power state.
fn cron_mirror(c: &Chain, cx: &mut Ctx, label: &str, before: &Snap, after: &Snap, traces: &[InvocationTrace], is_tick: bool) {
    let epoch = c.epoch();
    let mut all = vec![];
    for t in traces { walk(t, &mut all); }
    for (i, a) in after.miners.iter().enumerate() {
        if !a.exists { continue; }
        let Some(b) = before.miners.get(i) else { continue };
        if !b.exists { continue; }
        let id = c.miners[i].id;
        let mid = id.id().unwrap();
        if !after.power.claims.contains_key(&mid) { continue; }
        let next_ev: Option<i64> = after.power.cron_events.get(&mid).and_then(|v| v.iter().filter(|(_, t)| *t == 1).map(|(e, _)| *e).min());
        let mut q: Option<(String, String)> = None;
        if !is_tick && a.cron_active && !b.cron_active {
            q = Some((format!("activate {} {}", b.proving_period_start, epoch), format!("{}", next_ev.unwrap_or(-1))));
        } else if is_tick {
            let ran = all.iter().filter(|t| t.to == id && t.method == fil_actor_miner::Method::OnDeferredCronEvent as u64 && t.exit_code.is_success()).count();
            // exactly one successful callback and it was the proving-deadline one (the record moved or stayed active)
            let had_dl_event = before.power.cron_events.get(&mid).map(|v| v.iter().any(|(e, t)| *t == 1 && *e <= epoch)).unwrap_or(false);
            if ran >= 1 && had_dl_event && b.cron_active {
                let want = if a.cron_active { format!("{} {} {}", a.proving_period_start, a.current_deadline, next_ev.unwrap_or(-1)) } else { format!("{} {} -", a.proving_period_start, a.current_deadline) };
                q = Some((format!("callback {} {} {}", b.proving_period_start, b.current_deadline, epoch), want));
            }
        }
        if let Some((line, want)) = q {
            let l = cx.lean.as_mut().unwrap();
            let ans = l.ask(&line).unwrap();
            cx.rep.branch(&format!("cron:{}", line.split(' ').next().unwrap()));
            let ans_cmp = if want.ends_with(" -") { let mut p: Vec<&str> = ans.split(' ').collect(); p.pop(); format!("{} -", p.join(" ")) } else { ans.clone() };
            if ans_cmp != want {
                cx.agree = false;
                let hdr = vec![format!("property C05 seed {} seq {}", cx.cfg.seed, cx.seq), format!("cron schedule model disagrees at: {} (miner {})", label, i)];
                let path = write_replay("C05", &format!("corr-{}-{}", cx.cfg.seed, cx.seq), &hdr, &cx.lines);
                cx.rep.disagreements.push(Disagreement { seq: cx.seq, step: cx.rep.ops, op: line, impl_out: want, model_out: ans, replay: path });
                cx.stop = true;
                return;
            }
        }
    }
}

/// C05 "early terminations are eventually processed": the model `BA.EarlyTerm` (queue size and the
/// miner's ProcessEarlyTerminations events) is compared with the real run where one kind of step
/// happened for a miner (a TerminateSectors message; a tick with only the deadline callback; a tick
/// with exactly one early-termination callback).  Independent oracle after every message and tick: a
/// miner with pending early terminations has such an event queued for the next tick.
fn et_mirror(c: &Chain, cx: &mut Ctx, label: &str, res: &Applied, before: &Snap, after: &Snap, traces: &[InvocationTrace], is_tick: bool) {
    let epoch = c.epoch();
    let mut all = vec![];
    for t in traces { walk(t, &mut all); }
    let kind = label.split(' ').next().unwrap();
    let target: Option<usize> = label.split(' ').find_map(|w| w.strip_prefix("miner=").and_then(|x| x.parse().ok()));
    let evs = |p: &PowerView, mid: u64| -> Vec<i64> { let mut v: Vec<i64> = p.cron_events.get(&mid).map(|v| v.iter().filter(|(_, t)| *t == 2).map(|(e, _)| *e).collect()).unwrap_or_default(); v.sort(); v };
    let ints = |v: &[i64]| -> String { if v.is_empty() { "-".into() } else { v.iter().map(|x| x.to_string()).collect::<Vec<_>>().join(",") } };
    for (i, a) in after.miners.iter().enumerate() {
        if !a.exists { continue; }
        let Some(b) = before.miners.get(i) else { continue };
        if !b.exists { continue; }
        let id = c.miners[i].id;
        let mid = id.id().unwrap();
        if !after.power.claims.contains_key(&mid) || !before.power.claims.contains_key(&mid) { continue; }
        let (eb, ea) = (evs(&before.power, mid), evs(&after.power, mid));
        // ---- oracle: pending work has an event due at the next tick
        if a.has_early_terminations && !ea.iter().any(|e| *e <= epoch + 1) {
            // a failed callback consumes the event without a new one (F1 makes callbacks fail on young networks)
            let failed_cb = all.iter().any(|t| t.to == id && t.method == fil_actor_miner::Method::OnDeferredCronEvent as u64 && !t.exit_code.is_success());
            if !failed_cb {
                cx.violation(Which::C05, "early-terminations-without-cron-event", format!("{}: miner {} has {} sectors awaiting early-termination processing and no ProcessEarlyTerminations event due (queued: {:?})", label, i, a.n_early_pending, ea));
                return;
            }
        }
        if cx.lean.is_none() { continue; }
        let (qb, qa) = (b.n_early_pending as i64, a.n_early_pending as i64);
        let processed = b.pledges.keys().filter(|k| !a.pledges.contains_key(k)).count() as i64;
        let mut q: Option<String> = None;
        if !is_tick && kind == "terminate" && target == Some(i) && res.ok() {
            let q1 = qa + processed;
            let n = q1 - qb;
            if n >= 0 {
                let cap = if qa > 0 { processed } else { q1.max(1) };
                q = Some(format!("et_terminate {} {} {} {} {}", qb, ints(&eb), epoch, n, cap));
            }
        } else if is_tick {
            let cbs: Vec<_> = all.iter().filter(|t| t.to == id && t.method == fil_actor_miner::Method::OnDeferredCronEvent as u64).collect();
            if cbs.is_empty() || cbs.iter().any(|t| !t.exit_code.is_success()) { continue; }
            let due_et = eb.iter().filter(|e| **e <= epoch).count();
            let due_dl = before.power.cron_events.get(&mid).map(|v| v.iter().filter(|(e, t)| *t == 1 && *e <= epoch).count()).unwrap_or(0);
            if due_et == 0 && due_dl == 1 {
                // only the proving-deadline callback: it may detect timed-out faults; when nothing was
                // pending before it also processes some of them at once.  Sectors that were faulty and
                // left the pledge ledger in this tick were detected and processed here.
                let faulty_b: BTreeSet<u64> = b.parts.iter().flat_map(|p| p.3.iter().cloned()).collect();
                let processed_early = b.pledges.keys().filter(|k| !a.pledges.contains_key(k) && faulty_b.contains(k)).count() as i64;
                let n = qa + processed_early - qb;
                if n >= 0 && (qb == 0 || processed_early == 0) {
                    let cap = if qa > 0 && qb == 0 { processed_early } else { (qb + n).max(1) };
                    q = Some(format!("et_detect {} {} {} {} {}", qb, ints(&eb), epoch, n, cap));
                }
            } else if due_et == 1 && due_dl == 0 {
                let cap = if qa > 0 { (qb - qa).max(0) } else { qb.max(1) };
                q = Some(format!("et_tick {} {} {} {}", qb, ints(&eb), epoch, cap));
            }
        }
        if std::env::var("BA_DEBUG_ET").is_ok() && (qb > 0 || qa > 0 || !eb.is_empty() || !ea.is_empty() || processed > 0) { eprintln!("ET {} miner {} e={} qb={} qa={} eb={:?} ea={:?} processed={} q={:?}", label, i, epoch, qb, qa, eb, ea, processed, q); }
        if let Some(line) = q {
            let want = format!("{} {}", qa, ints(&ea));
            let l = cx.lean.as_mut().unwrap();
            let ans = l.ask(&line).unwrap();
            cx.rep.branch(&format!("cron:{}", line.split(' ').next().unwrap()));
            if ans != want {
                cx.agree = false;
                let hdr = vec![format!("property C05 seed {} seq {}", cx.cfg.seed, cx.seq), format!("early-termination model disagrees at: {} (miner {})", label, i)];
                let path = write_replay("C05", &format!("corr-{}-{}", cx.cfg.seed, cx.seq), &hdr, &cx.lines);
                cx.rep.disagreements.push(Disagreement { seq: cx.seq, step: cx.rep.ops, op: line, impl_out: want, model_out: ans, replay: path });
                cx.stop = true;
                return;
            }
        }
    }
}

fn map_s(m: &BTreeMap<u64, TokenAmount>) -> String {
    if m.is_empty() { "-".into() } else { m.iter().map(|(k, v)| format!("{}:{}", k, v.atto())).collect::<Vec<_>>().join(",") }
}
fn list_s(l: &[u64]) -> String {
    if l.is_empty() { "-".into() } else { l.iter().map(|k| k.to_string()).collect::<Vec<_>>().join(",") }
}

/// C03 correspondence: mirror the funds-relevant real operations on the Lean ledger model and
/// compare (balance, pcd, lf, ip, debt, Δ network total, burnt, paid).  Operations the ledger model
/// does not cover re-synchronise the model from the real state.
fn ledger_mirror(c: &Chain, cx: &mut Ctx, label: &str, res: &Applied, before: &Snap, after: &Snap, traces: &[InvocationTrace]) {
    let n = after.miners.len();
    while cx.ledger_net.len() < n { cx.ledger_net.push(TokenAmount::zero()); cx.ledger_unacc.push(TokenAmount::zero()); cx.ledger_synced.push(false); }
    let epoch = c.epoch();
    let mut all = vec![];
    for t in traces { walk(t, &mut all); }
    let kind = label.split(' ').next().unwrap();
    let arg = |name: &str| -> Option<String> {
        label.split(' ').find_map(|w| w.strip_prefix(&format!("{}=", name)).map(|x| x.to_string()))
    };
    let target: Option<usize> = arg("miner").and_then(|x| x.parse().ok());
    let dtotal = &after.power.total_pledge - &before.power.total_pledge;
    for i in 0..n {
        let a = &after.miners[i];
        if !a.exists { continue; }
        let b = before.miners.get(i).cloned().unwrap_or_default();
        let id = c.miners[i].id;
        let mid = id.id().unwrap();
        let vested: TokenAmount = b.vest.iter().filter(|(e, _)| *e < epoch).map(|(_, x)| x.clone()).sum();
        // burnt by this miner in this message (sends to f099)
        let burnt: TokenAmount = all.iter().filter(|t| t.from == mid && t.to == BURNT_FUNDS_ACTOR_ADDR && t.exit_code.is_success()).map(|t| t.value.clone()).sum();
        let others = &before.power.total_pledge - &cx.ledger_net[i];
        let mut op: Option<String> = None;
        let touched = all.iter().any(|t| (t.to == id || t.from == mid) && t.exit_code.is_success());
        if kind == "create_miner" && !b.exists && res.ok() {
            let value = all.first().map(|t| t.value.clone()).unwrap_or_default();
            op = Some(format!("create {} {}", value.atto(), a.lf.atto()));
        } else if !res.ok() && kind != "tick" {
            continue; // failed user message: nothing changed (checked by the monitors)
        } else if target == Some(i) && kind == "fund" {
            op = Some(format!("fund {}", (&a.balance - &b.balance).atto()));
        } else if target == Some(i) && kind == "precommit" {
            let deps: BTreeMap<u64, TokenAmount> = a.precommits.iter().filter(|(k, _)| !b.precommits.contains_key(k)).map(|(k, v)| (*k, v.clone())).collect();
            op = Some(format!("precommit {}", map_s(&deps)));
        } else if target == Some(i) && kind == "prove_commit" {
            let secs: BTreeMap<u64, TokenAmount> = a.pledges.iter().filter(|(k, _)| !b.pledges.contains_key(k)).map(|(k, v)| (*k, v.clone())).collect();
            if secs.is_empty() { cx.ledger_synced[i] = false; } else { op = Some(format!("provecommit {}", map_s(&secs))); }
        } else if target == Some(i) && kind == "award_block_reward" {
            // reward -> miner ApplyRewards
            if let Some(t) = all.iter().find(|t| t.to == id && t.method == fil_actor_miner::Method::ApplyRewards as u64) {
                if t.exit_code.is_success() {
                    let p: fil_actor_miner::ApplyRewardParams = t.params.clone().unwrap().deserialize().unwrap();
                    op = Some(format!("rewards {} {} {}", p.reward.atto(), p.penalty.atto(), vested.atto()));
                }
            }
        } else if target == Some(i) && kind == "withdraw" && arg("owner").as_deref() == Some("true") {
            op = Some(format!("withdraw {} {} {}", arg("amount").unwrap(), vested.atto(), if b.has_early_terminations { 1 } else { 0 }));
        } else if target == Some(i) && kind == "repay_debt" {
            op = Some(format!("repay {} {}", arg("value").unwrap(), vested.atto()));
        } else if target == Some(i) && kind == "terminate" {
            // TerminateSectors with inline early-termination processing: the sectors whose pledge was
            // released in this call, the fee = debt increase + what was burnt
            let processed: Vec<u64> = b.pledges.keys().filter(|k| !a.pledges.contains_key(k)).cloned().collect();
            let penalty = (&a.debt - &b.debt) + &burnt;
            op = Some(format!("terminate {} {} {}", list_s(&processed), penalty.atto(), vested.atto()));
        } else if target == Some(i) && kind == "report_consensus_fault" {
            // penalty and reporter reward as the formulas produced them (C15 models the formulas);
            // whether the transfer to the reporter went through is read from the trace
            let to_reporter: Vec<_> = all.iter().filter(|t| t.from == mid && t.method == 0 && t.to != BURNT_FUNDS_ACTOR_ADDR).collect();
            let send_ok = to_reporter.iter().all(|t| t.exit_code.is_success());
            let paid: TokenAmount = to_reporter.iter().filter(|t| t.exit_code.is_success()).map(|t| t.value.clone()).sum();
            let penalty = (&a.debt - &b.debt) + &burnt + &paid;
            let slasher = to_reporter.first().map(|t| t.value.clone()).unwrap_or_default();
            // the reward is min(burn, slasher reward): when it was clamped the attempted value is the
            // clamp itself, which the model reproduces from any slasher reward ≥ it
            op = Some(format!("consensusfault {} {} {} {}", penalty.atto(), slasher.atto(), vested.atto(), if send_ok { 1 } else { 0 }));
        } else if kind == "tick" {
            let cb: Vec<_> = all.iter().filter(|t| t.to == id && t.method == fil_actor_miner::Method::OnDeferredCronEvent as u64).collect();
            if cb.is_empty() { continue; }
            let early = b.has_early_terminations || a.has_early_terminations || b.n_early_pending + a.n_early_pending > 0;
            let terminated_deals = all.iter().any(|t| t.from == mid && t.to == STORAGE_MARKET_ACTOR_ADDR);
            // sectors that left the pledge ledger while faulty were terminated early (fault time-out) and
            // processed inside the same callback: not an on-time expiration, not covered by the ledger model
            let early_inline = b.n_faulty > 0 && b.pledges.keys().any(|k| !a.pledges.contains_key(k));
            if cb.len() == 1 && cb[0].exit_code.is_success() && !early && !early_inline && !terminated_deals && b.cron_active {
                let exp_pre: Vec<u64> = b.precommits.keys().filter(|k| !a.precommits.contains_key(k)).cloned().collect();
                let exp_sec: Vec<u64> = b.pledges.keys().filter(|k| !a.pledges.contains_key(k)).cloned().collect();
                let dep_burn: TokenAmount = exp_pre.iter().map(|k| b.precommits[k].clone()).sum();
                let penalty = (&a.debt - &b.debt) + &burnt - &dep_burn;
                op = Some(format!("deadline {} {} {} {}", list_s(&exp_pre), list_s(&exp_sec), penalty.atto(), vested.atto()));
            } else if cb.iter().any(|t| t.exit_code.is_success()) {
                cx.ledger_synced[i] = false;
            } else { continue; }
        } else if touched || a.balance != b.balance || a.lf != b.lf || a.ip != b.ip || a.pcd != b.pcd || a.debt != b.debt {
            // an operation the ledger model does not cover changed this miner
            cx.ledger_synced[i] = false;
        } else { continue; }
        let l = cx.lean.as_mut().unwrap();
        if let (Some(op), true) = (op.clone(), cx.ledger_synced[i] || kind == "create_miner") {
            let ans = l.ask(&format!("m {} {} {}", i, others.atto(), op)).unwrap();
            cx.ledger_ops += 1;
            cx.rep.branch(&format!("ledger:{}", op.split(' ').next().unwrap()));
            // expected from the real run
            let paid: TokenAmount = if kind == "withdraw" || kind == "report_consensus_fault" { all.iter().filter(|t| t.from == mid && t.method == 0 && t.to != BURNT_FUNDS_ACTOR_ADDR && t.exit_code.is_success()).map(|t| t.value.clone()).sum() } else { TokenAmount::zero() };
            // this miner's share of the network-total change: all of it unless another miner's callback ran in the same tick
            let mut parts = ans.split(" | ");
            let head = parts.next().unwrap_or("");
            let st: Vec<&str> = parts.next().unwrap_or("").split(' ').collect();
            let model_net: TokenAmount = st.get(5).and_then(|x| x.parse::<fvm_shared::bigint::BigInt>().ok()).map(TokenAmount::from_atto).unwrap_or_default();
            let dnet_model = &model_net - &cx.ledger_net[i];
            let single = kind != "tick" || after.miners.iter().enumerate().filter(|(j, m)| m.exists && (m.ip.clone() + &m.lf) != before.miners.get(*j).map(|b| b.ip.clone() + &b.lf).unwrap_or_default()).count() <= 1;
            let want_head = format!("ok {} {}", burnt.atto(), paid.atto());
            let want_st = format!("{} {} {} {} {}", a.balance.atto(), a.pcd.atto(), a.lf.atto(), a.ip.atto(), a.debt.atto());
            let got_st = st.iter().take(5).cloned().collect::<Vec<_>>().join(" ");
            let cron_ok = kind != "tick" || st.get(6).map(|x| *x == "1") == Some(a.cron_active);
            if head != want_head || got_st != want_st || (single && dnet_model != dtotal) || !cron_ok {
                cx.agree = false;
                let hdr = vec![format!("property C03 seed {} seq {}", cx.cfg.seed, cx.seq), format!("ledger model disagrees at: {} (miner {})", label, i)];
                let path = write_replay("C03", &format!("corr-{}-{}", cx.cfg.seed, cx.seq), &hdr, &cx.lines);
                cx.rep.disagreements.push(Disagreement { seq: cx.seq, step: cx.rep.ops, op: format!("m {} {} {}", i, others.atto(), op), impl_out: format!("{} | {} Δnet {} cron {}", want_head, want_st, dtotal.atto(), a.cron_active), model_out: format!("{} (Δnet {})", ans, dnet_model.atto()), replay: path });
                cx.stop = true;
                return;
            }
            cx.ledger_net[i] = model_net;
            if kind == "create_miner" { cx.ledger_unacc[i] = a.lf.clone(); cx.ledger_synced[i] = true; }
        } else {
            // (re)synchronise: the model continues from the real state; its share of the network
            // total moves by the real change of the total during this message
            if kind != "tick" || after.miners.iter().filter(|m| m.exists).count() == 1 || true {
                cx.ledger_net[i] = &cx.ledger_net[i] + if target == Some(i) || kind == "tick" { (&a.ip + &a.lf) - (&b.ip + &b.lf) } else { TokenAmount::zero() };
            }
            let _ = l.ask(&format!("set {} {} {} {} {} {} {} {} {} {} {}", i, a.balance.atto(), a.pcd.atto(), a.lf.atto(), a.ip.atto(), a.debt.atto(), cx.ledger_net[i].atto(), cx.ledger_unacc[i].atto(), if a.cron_active { 1 } else { 0 }, map_s(&a.precommits), map_s(&a.pledges)));
            cx.ledger_synced[i] = true;
            cx.rep.branch("ledger:resync");
        }
    }
}

thread_local! {
    static BAL_BEFORE: std::cell::RefCell<BTreeMap<u64, TokenAmount>> = std::cell::RefCell::new(BTreeMap::new());
}

fn record_balances(c: &Chain) {
    let mut m = BTreeMap::new();
    for (a, st) in c.w.vm.actor_states() {
        if let Ok(id) = a.id() { m.insert(id, st.balance); }
    }
    BAL_BEFORE.with(|b| *b.borrow_mut() = m);
}

/// advance the chain to `target`, running the cron tick at the end of every epoch that has queued
/// power-actor work (all epochs when `dense`)
fn advance(c: &mut Chain, cx: &mut Ctx, target: i64, dense: bool) {
    let mut guard = 0;
    while c.epoch() < target && !cx.stop {
        guard += 1;
        if guard > 400000 { break; }
        let e = c.epoch();
        let pv = c.power_view();
        let next_ev = pv.next_event_epoch.unwrap_or(i64::MAX);
        if dense || next_ev <= e {
            record_balances(c);
            exec(c, cx, "tick".to_string(), true, false, |c| c.tick());
            c.set_epoch(e + 1);
        } else {
            // no queued work before min(next_ev, target): a tick there would only update the
            // reward/power smoothing estimates; jump (see DESIGN §7 C05, time-warp)
            let to = next_ev.min(target);
            c.set_epoch(to.max(e + 1));
        }
    }
}

fn fil(n: i64) -> TokenAmount { TokenAmount::from_whole(n) }

const LONG_FAULT_SEQ: u64 = 1_000_000;
const REWARD_MATURITY_SEQ: u64 = 1_000_001;
const REPLICA_UPDATE_SEQ: u64 = 1_000_002;

/// Scripted history: two committed-capacity sectors in two different deadlines (NI prove-commit lets
/// the deadline be chosen), both proven, then upgraded **in one message** with verified deals (the
/// pledge of each rises with its quality-adjusted power).  The ledgers and the network total must
/// stay exact across the multi-deadline update.
fn replica_update_script(c: &mut Chain, cx: &mut Ctx) {
    let mi = 0usize;
    let (owner, mid, client) = (c.miners[mi].owner, c.miners[mi].id, c.accounts[3].0);
    if !c.grant_datacap(2, 3, 64u64 << 30) {
        cx.rep.notes.push("replica-update scenario skipped: DataCap could not be granted through the repo's helpers".into());
        return;
    }
    c.w.take_trace();
    record_balances(c);
    exec(c, cx, "market_add_balance for=miner0 value=50".to_string(), false, false, |c| c.market_add_balance(&owner, &mid, &fil(50)));
    record_balances(c);
    exec(c, cx, "market_add_balance for=client3 value=500".to_string(), false, false, |c| c.market_add_balance(&client, &client, &fil(500)));
    // two CC sectors in two deadlines well ahead of the current one
    let dl0 = c.dline_info(mi).index;
    let (da, db) = ((dl0 + 10) % 48, (dl0 + 20) % 48);
    let mut secs = vec![];
    for d in [da, db] {
        let mut nums = vec![];
        record_balances(c);
        let res = exec(c, cx, format!("prove_commit_ni miner={} n=1 deadline={}", mi, d), false, false, |c| { let (a, b) = c.prove_commit_ni(mi, 1, d, 60 * 2880); nums = b; a });
        if !res.ok() { cx.rep.notes.push(format!("replica-update scenario: NI prove-commit refused ({})", res.message)); return; }
        secs.push(nums[0]);
    }
    // prove each of them once
    for _ in 0..120 {
        if cx.stop { return; }
        let view = c.miner_view(&c.miners[mi].id);
        if view.parts.iter().all(|p| p.5.is_empty()) && view.n_live >= 2 { break; }
        let dl = c.dline_info(mi);
        let parts: Vec<_> = view.parts.iter().filter(|p| p.0 == dl.index && !p.5.is_empty()).cloned().collect();
        if !parts.is_empty() && dl.is_open() {
            let plist: Vec<(u64, Vec<u64>)> = parts.iter().map(|p| (p.1, vec![])).collect();
            record_balances(c);
            exec(c, cx, format!("post miner={} deadline={} parts={:?} invalid=false", mi, dl.index, plist), false, false, |c| c.submit_post(mi, dl.index, dl.challenge, plist.clone(), false));
        }
        let t = dl.close.max(c.epoch() + 1);
        advance(c, cx, t, false);
    }
    // two verified deals, then one ProveReplicaUpdates3 covering both deadlines (earlier deadline first)
    let start = c.epoch() + 600;
    let end = start + 200 * 2880;
    let mut ids = vec![];
    for k in 0..2u64 {
        let mut id = None;
        record_balances(c);
        let res = exec(c, cx, format!("publish_deal miner={} client=3 start={} end={} verified=true", mi, start, end), false, false, |c| { let (a, b) = c.publish_deal_v(mi, 3, 998_000 + k, start, end, true); id = b; a });
        if let (true, Some(d)) = (res.ok(), id) { ids.push(d); }
    }
    if ids.len() < 2 { cx.rep.notes.push("replica-update scenario: verified deals were not published".into()); return; }
    let view = c.miner_view(&c.miners[mi].id);
    let mut ups: Vec<(u64, u64, u64, Vec<u64>)> = vec![];
    for (k, sn) in secs.iter().enumerate() {
        if let Some(p) = view.parts.iter().find(|p| p.2.contains(sn)) { ups.push((*sn, p.0, p.1, vec![ids[k]])); }
    }
    ups.sort_by_key(|u| u.1);
    // the update must not target the current or the next deadline
    let dl = c.dline_info(mi);
    if ups.iter().any(|u| u.1 == dl.index || u.1 == (dl.index + 1) % 48) {
        let t = c.epoch() + 3 * 60;
        advance(c, cx, t, false);
    }
    record_balances(c);
    let res = exec(c, cx, format!("replica_update miner={} updates={:?}", mi, ups), false, false, |c| c.replica_update(mi, ups.clone()));
    let v2 = c.miner_view(&c.miners[mi].id);
    cx.rep.notes.push(format!("replica-update scenario: update of {} sectors in deadlines {:?} -> {} ; ip {} Σ {}", ups.len(), ups.iter().map(|u| u.1).collect::<Vec<_>>(), if res.ok() { "ok".to_string() } else { res.message.clone() }, v2.ip.atto(), v2.sector_pledge_sum.atto()));
}
fn cx_seq_tag() -> u64 { 1 }

/// Operations beyond the basic sector life cycle: storage deals (publish, pre-commit with data,
/// activation through prove-commit), non-interactive prove-commit, replica updates, and funding a
/// miner to exactly its fee debt (boundary of the "unlocked funds cover debt and pledge" checks).
#[allow(clippy::too_many_arguments)]
fn extra_op(c: &mut Chain, cx: &mut Ctx, r: &mut Rng, mi: usize, k: u64, view: &MinerView,
            deals: &mut Vec<(u64, usize, i64, Option<u64>, bool)>, deal_tag: &mut u64,
            pending: &mut [Vec<(u64, i64)>], proven_any: &mut bool) {
    let epoch = c.epoch();
    if k >= 124 {
        // fee-debt probe: drain the miner, penalise it so that it ends in fee debt, fund it to exactly
        // the debt, then try to onboard sectors (NI path) — the pledge must not be taken from funds
        // that are about to be burnt
        let avail = &view.balance - &view.pcd - &view.lf - &view.ip - &view.debt;
        if avail.is_positive() {
            exec(c, cx, format!("withdraw miner={} owner=true amount={}", mi, avail.atto()), false, false, |c| c.withdraw(mi, true, &avail));
        }
        let penalty = fil(r.range(20, 60));
        record_balances(c);
        exec(c, cx, format!("award_block_reward miner={} penalty={} gas=0 wins=1", mi, penalty.atto()), false, false, |c| c.award_block_reward(mi, &penalty, &TokenAmount::zero(), 1));
        let v2 = c.miner_view(&c.miners[mi].id);
        if v2.debt.is_positive() {
            let unlocked = &v2.balance - &v2.pcd - &v2.lf - &v2.ip;
            let want = &v2.debt + TokenAmount::from_atto(r.range(0, 2));
            if want > unlocked {
                let v = &want - &unlocked;
                record_balances(c);
                exec(c, cx, format!("fund miner={} value={}", mi, v.atto()), false, false, |c| c.send_funds(mi, &v));
            }
            let n = r.range(1, 2) as usize;
            let dl = r.below(48);
            record_balances(c);
            exec(c, cx, format!("prove_commit_ni miner={} n={} deadline={}", mi, n, dl), false, false, |c| c.prove_commit_ni(mi, n, dl, 0).0);
        }
        return;
    }
    if k < 106 {
        // publish a deal
        *deal_tag += 1;
        let tag = cx.seq * 1000 + *deal_tag;
        let start = epoch + 160 + r.range(0, 400);
        let end = start + 180 * 2880 + r.range(0, 50) * 2880;
        let client = if r.chance(1, 2) { 3 } else { 4 };
        let mut id = None;
        let res = exec(c, cx, format!("publish_deal miner={} client={} start={} end={}", mi, client, start, end), false, false, |c| { let (a, b) = c.publish_deal(mi, client, tag, start, end); id = b; a });
        if res.ok() { if let Some(d) = id { deals.push((d, mi, start, None, false)); } }
    } else if k < 110 {
        // pre-commit a sector holding a published, unused deal of this miner
        if let Some(pos) = deals.iter().position(|d| d.1 == mi && d.3.is_none() && d.2 > epoch + 155) {
            let d = deals[pos].0;
            let mut sn = 0;
            let res = exec(c, cx, format!("precommit miner={} n=1 deals=[{}]", mi, d), false, false, |c| { let (a, b) = c.precommit_with_deals(mi, &[d], 30 * 2880); sn = b; a });
            if res.ok() { deals[pos].3 = Some(sn); }
        }
    } else if k < 114 {
        // prove-commit a pre-committed sector with its deal
        if let Some(pos) = deals.iter().position(|d| d.1 == mi && d.3.is_some() && !d.4) {
            let (d, sn) = (deals[pos].0, deals[pos].3.unwrap());
            let res = exec(c, cx, format!("prove_commit miner={} sectors=[{}] deals=[{}]", mi, sn, d), false, false, |c| c.prove_commit_with_deals(mi, sn, &[d]));
            if res.ok() { deals[pos].4 = true; *proven_any = true; }
        }
    } else if k < 115 && !deals.is_empty() {
        // anybody settles some deals (before start, at start, later)
        let ids: Vec<u64> = deals.iter().filter(|_| r.chance(1, 2)).map(|d| d.0).collect();
        if !ids.is_empty() {
            exec(c, cx, format!("settle_deals by=client4 deals={:?}", ids), false, false, |c| c.settle_deals(4, &ids));
        }
    } else if k < 117 {
        let n = r.range(1, 3) as usize;
        let dl = r.below(48);
        let res = exec(c, cx, format!("prove_commit_ni miner={} n={} deadline={}", mi, n, dl), false, false, |c| c.prove_commit_ni(mi, n, dl, 0).0);
        if res.ok() { *proven_any = true; }
    } else if k < 120 {
        // replica update of a live, non-faulty sector with an unused published deal
        if let Some(pos) = deals.iter().position(|d| d.1 == mi && d.3.is_none() && d.2 > epoch) {
            let mut ups = vec![];
            for p in view.parts.iter() {
                for sn in p.2.iter() {
                    if !p.3.contains(sn) && !p.5.contains(sn) && ups.len() < 2 && !deals.iter().any(|d| d.3 == Some(*sn)) {
                        ups.push((*sn, p.0, p.1, if ups.is_empty() { vec![deals[pos].0] } else { vec![] }));
                    }
                }
            }
            if !ups.is_empty() {
                let first = ups[0].0;
                let res = exec(c, cx, format!("replica_update miner={} updates={:?}", mi, ups), false, false, |c| c.replica_update(mi, ups.clone()));
                if res.ok() { deals[pos].3 = Some(first); deals[pos].4 = true; }
            }
        }
    } else {
        // fund the miner so that its unlocked balance equals its fee debt (+ a little)
        if view.debt.is_positive() {
            let unlocked = &view.balance - &view.pcd - &view.lf - &view.ip;
            let want = &view.debt + TokenAmount::from_atto(r.range(0, 3));
            if want > unlocked {
                let v = &want - &unlocked;
                exec(c, cx, format!("fund miner={} value={}", mi, v.atto()), false, false, |c| c.send_funds(mi, &v));
            }
        }
    }
    let _ = pending;
}

/// Scripted history: a miner proves two sectors once and then never submits a PoSt again; the
/// sectors stay faulty for the whole `fault_max_age` (42 proving periods) with the cron running,
/// are then terminated by the fault time-out, and the early terminations must be processed (fee
/// charged, pledge released, queues empty).  The monitors run on every tick as usual.
fn long_fault_script(c: &mut Chain, cx: &mut Ctx, pending: &mut Vec<Vec<(u64, i64)>>) {
    let mi = 0usize;
    // a storage deal in one of the sectors, so that the fault time-out has deals to terminate; the
    // miner's OnMinerSectorsTerminate call to the market is made to fail (tolerated in cron context)
    {
        let (owner, mid, client) = (c.miners[mi].owner, c.miners[mi].id, c.accounts[3].0);
        record_balances(c);
        exec(c, cx, "market_add_balance for=miner0 value=50".to_string(), false, false, |c| c.market_add_balance(&owner, &mid, &fil(50)));
        record_balances(c);
        exec(c, cx, "market_add_balance for=client3 value=500".to_string(), false, false, |c| c.market_add_balance(&client, &client, &fil(500)));
        let start = c.epoch() + 400;
        let end = start + 200 * 2880;
        let mut id = None;
        record_balances(c);
        let res = exec(c, cx, format!("publish_deal miner={} client=3 start={} end={}", mi, start, end), false, false, |c| { let (a, b) = c.publish_deal(mi, 3, 999_000 + cx_seq_tag(), start, end); id = b; a });
        if let (true, Some(d)) = (res.ok(), id) {
            let e1 = c.epoch();
            let mut sn = 0;
            record_balances(c);
            let res = exec(c, cx, format!("precommit miner={} n=1 deals=[{}]", mi, d), false, false, |c| { let (a, b) = c.precommit_with_deals(mi, &[d], 30 * 2880); sn = b; a });
            if res.ok() {
                let target = e1 + c.policy.pre_commit_challenge_delay + 2;
                advance(c, cx, target, false);
                record_balances(c);
                exec(c, cx, format!("prove_commit miner={} sectors=[{}] deals=[{}]", mi, sn, d), false, false, |c| c.prove_commit_with_deals(mi, sn, &[d]));
                // settling an activated deal before its start is a legal no-op; the market cron must
                // still be able to process the deal when it reaches it (weeks later in this history)
                record_balances(c);
                exec(c, cx, format!("settle_deals by=client3 deals=[{}]", d), false, false, |c| c.settle_deals(3, &[d]));
            }
        }
        let midn = c.miners[mi].id.id().unwrap();
        c.w.vm.fault_plan.borrow_mut().rules = vec![FaultRule { from: Some(midn), to: Some(5), method: Some(fil_actor_market::Method::OnMinerSectorsTerminate as u64), exit: 7, ..Default::default() }];
        cx.lines.push("# fault plan: miner -> market OnMinerSectorsTerminate fails".to_string());
    }
    // one more sector next to the one pre-committed at creation
    let e0 = c.epoch();
    record_balances(c);
    let mut out = None;
    let res = exec(c, cx, format!("precommit miner={} n=1", mi), false, false, |c| { let (a, b) = c.precommit(mi, 1, 0); out = Some(b); a });
    if res.ok() { for s in out.unwrap() { pending[mi].push((s, e0)); } }
    let target = e0 + c.policy.pre_commit_challenge_delay + 2;
    advance(c, cx, target, false);
    let secs: Vec<u64> = pending[mi].iter().map(|p| p.0).collect();
    record_balances(c);
    exec(c, cx, format!("prove_commit miner={} sectors={:?}", mi, secs), false, false, |c| c.prove_commit(mi, &secs));
    // prove them once: advance to the deadline that holds them and submit a PoSt
    for _ in 0..60 {
        if cx.stop { return; }
        let view = c.miner_view(&c.miners[mi].id);
        let dl = c.dline_info(mi);
        let parts: Vec<_> = view.parts.iter().filter(|p| p.0 == dl.index && !p.2.is_empty()).cloned().collect();
        if !parts.is_empty() && dl.is_open() {
            let plist: Vec<(u64, Vec<u64>)> = parts.iter().map(|p| (p.1, vec![])).collect();
            record_balances(c);
            exec(c, cx, format!("post miner={} deadline={} parts={:?} invalid=false", mi, dl.index, plist), false, false, |c| c.submit_post(mi, dl.index, dl.challenge, plist.clone(), false));
            break;
        }
        let t = dl.close.max(c.epoch() + 1);
        advance(c, cx, t, false);
    }
    // C05: from here on a single process_early_terminations call addresses at most two sectors, so that
    // the three timed-out sectors need the deferred ProcessEarlyTerminations event (model: BA.EarlyTerm)
    if cx.which == Which::C05 {
        c.w.vm.policy.addressed_sectors_max = 2;
        cx.lines.push("# policy.addressed_sectors_max = 2 from here on".into());
    }
    // ... and never again: run the chain through fault_max_age plus two proving periods
    let end = c.epoch() + c.policy.fault_max_age + 3 * c.policy.wpost_proving_period;
    cx.lines.push(format!("# no further PoSt; advancing to {}", end));
    advance(c, cx, end, false);
    let v = c.miner_view(&c.miners[mi].id);
    let endl = format!("long-fault scenario end: live={} faulty={} early_pending={} ip={} debt={} burnt_total={}", v.n_live, v.n_faulty, v.n_early_pending, v.ip.atto(), v.debt.atto(), c.w.balance(&BURNT_FUNDS_ACTOR_ADDR).atto());
    cx.lines.push(format!("# {}", endl));
    cx.rep.notes.push(endl);
    if v.n_live > 0 && !cx.stop {
        cx.violation(Which::C05, "fault-timeout-not-processed", format!("{} sectors still live {} epochs after they stopped being proven (fault_max_age {})", v.n_live, c.policy.fault_max_age + 3 * c.policy.wpost_proving_period, c.policy.fault_max_age));
    }
}

pub fn run(cfg: &RunCfg, which: Which) -> Report {
    let mut rep = Report::new(which.id(), cfg.seed, &cfg.tier);
    rep.nontrivial_rule = "a sequence is non-trivial when at least 5 user messages succeeded and at least one sector was proven or one reward applied; distinct = distinct hash of the op/result lines".into();
    let (nseq, steps) = if cfg.thorough() { (40u64, 400u64) } else { (6, 90) };
    let nseq = nseq * cfg.budget;
    let mut lean = if cfg.use_lean && which == Which::C01 { Some(LeanDriver::spawn("vm").expect("lean driver")) }
        else if cfg.use_lean && which == Which::C03 { Some(LeanDriver::spawn("minerledger").expect("lean driver")) }
        else if cfg.use_lean && which == Which::C05 { Some(LeanDriver::spawn("cron").expect("lean driver")) } else { None };
    let mut seen = HashSet::new();
    let mut seqs: Vec<u64> = match cfg.only_seq { Some(k) if k >= super::PAYCH_SEQ_BASE => vec![], Some(k) => vec![k], None => (0..nseq).collect() };
    // scripted scenario (C05/C03): sectors left faulty for the whole fault_max_age (42 proving periods)
    if cfg.only_seq.is_none() && which != Which::C01 { seqs.push(LONG_FAULT_SEQ); }
    if cfg.only_seq.is_none() && which == Which::C03 { seqs.push(REWARD_MATURITY_SEQ); seqs.push(REPLICA_UPDATE_SEQ); }
    for seq in seqs {
        let mut r = seq_rng(cfg.seed, seq);
        let scripted = seq == LONG_FAULT_SEQ || seq == REWARD_MATURITY_SEQ || seq == REPLICA_UPDATE_SEQ;
        let mut c = Chain::new(6);
        c.set_epoch(r.range(1, 40));
        let dense = r.chance(1, 4) && !scripted;
        let with_faults = r.chance(1, 3) && !scripted;
        // F1 (known finding): the creation deposit is never added to the network pledge total, and
        // on a young network that soon makes every miner operation fail.  In 3 of 4 sequences the
        // harness compensates (the new miner reports its locked deposit to the power actor, which
        // is what a repair would do) so that everything else stays observable; the remaining
        // sequences run uncompensated and keep exhibiting the finding.
        let compensate_f1 = !r.chance(1, 4) || scripted;
        let mut cx = Ctx { which, cfg, seq, rep: &mut rep, lines: vec![], stop: false, unaccounted: TokenAmount::zero(), known_seen: HashSet::new(), lean: lean.as_mut(), agree: true, nontrivial: 0, caught_up: vec![], ledger_net: vec![], ledger_unacc: vec![], ledger_synced: vec![], ledger_ops: 0 };
        cx.rep.sequences += 1;
        if which == Which::C03 { if let Some(l) = cx.lean.as_mut() { let _ = l.ask("reset"); } }
        cx.lines.push(format!("# dense={} with_faults={} compensate_f1={}", dense, with_faults, compensate_f1));
        // per-miner bookkeeping of the generator
        let mut pending: Vec<Vec<(u64, i64)>> = vec![]; // (sector, precommit epoch)
        let mut proven_any = false;
        let n_miners = if scripted { 1 } else { r.range(1, 3) as usize };
        for i in 0..n_miners {
            let value = if scripted { fil(5000) } else { match r.below(6) { 0 => fil(0), 1 => fil(5000), _ => fil(100) } };
            record_balances(&c);
            let res = exec(&mut c, &mut cx, format!("create_miner owner={} value={}", i, value.atto()), false, true, |c| c.create_miner(i, i, &value));
            if res.ok() {
                pending.push(vec![]);
                // working capital
                let mi = c.miners.len() - 1;
                if compensate_f1 {
                    let lf = c.miner_view(&c.miners[mi].id).lf;
                    let rr = c.w.apply(&c.miners[mi].id, &STORAGE_POWER_ACTOR_ADDR, &TokenAmount::zero(),
                        fil_actor_power::Method::UpdatePledgeTotal as u64,
                        Some(fil_actor_power::UpdatePledgeTotalParams { pledge_delta: lf.clone() }));
                    cx.lines.push(format!("# F1 compensation: miner {} reports locked deposit {} -> {}", mi, lf.atto(), rr.code.value()));
                    if rr.ok() {
                        cx.unaccounted -= &lf;
                        // the ledger model learns about the compensation by a re-synchronisation
                        while cx.ledger_net.len() <= mi { cx.ledger_net.push(TokenAmount::zero()); cx.ledger_unacc.push(TokenAmount::zero()); cx.ledger_synced.push(false); }
                        cx.ledger_net[mi] += &lf;
                        cx.ledger_unacc[mi] = TokenAmount::zero();
                        cx.ledger_synced[mi] = false;
                    }
                }
                let cap = if scripted { fil(5000) } else if r.chance(1, 6) { fil(50) } else { fil(r.range(1, 4) * 2500) };
                let immediate = (r.chance(1, 2) || scripted) && seq != REWARD_MATURITY_SEQ && seq != REPLICA_UPDATE_SEQ;
                record_balances(&c);
                exec(&mut c, &mut cx, format!("fund miner={} value={}", mi, cap.atto()), false, false, |c| c.send_funds(mi, &cap));
                if immediate {
                    // activate the deadline cron in the creation epoch, before the record can go stale
                    let epoch = c.epoch();
                    record_balances(&c);
                    let mut out = None;
                    let res = exec(&mut c, &mut cx, format!("precommit miner={} n=1", mi), false, false, |c| { let (a, b) = c.precommit(mi, 1, 0); out = Some(b); a });
                    if res.ok() { for s in out.unwrap() { pending[mi].push((s, epoch)); } }
                }
            }
        }
        if c.miners.is_empty() { continue; }
        // market escrow for providers (miners) and two client accounts, so deals can be published
        let mut deals: Vec<(u64, usize, i64, Option<u64>, bool)> = vec![]; // (deal id, miner, start, sector, activated)
        let mut deal_tag: u64 = 0;
        if !scripted {
            for mi in 0..c.miners.len() {
                let (owner, mid) = (c.miners[mi].owner, c.miners[mi].id);
                record_balances(&c);
                exec(&mut c, &mut cx, format!("market_add_balance for=miner{} value=50", mi), false, false, |c| c.market_add_balance(&owner, &mid, &fil(50)));
            }
            for ci in [3usize, 4] {
                let a = c.accounts[ci].0;
                record_balances(&c);
                exec(&mut c, &mut cx, format!("market_add_balance for=client{} value=500", ci), false, false, |c| c.market_add_balance(&a, &a, &fil(500)));
            }
        }
        if seq == LONG_FAULT_SEQ {
            long_fault_script(&mut c, &mut cx, &mut pending);
            proven_any = true;
        }
        if seq == REPLICA_UPDATE_SEQ {
            replica_update_script(&mut c, &mut cx);
            proven_any = true;
        }
        if seq == REWARD_MATURITY_SEQ {
            // block rewards reaching a miner whose vesting table holds matured, not yet unlocked
            // entries (a miner without a running cron: nothing unlocks them in between)
            let mi = 0usize;
            for days in [0i64, 3, 10, 11] {
                let t = c.epoch() + days * 2880 + 100;
                advance(&mut c, &mut cx, t, false);
                record_balances(&c);
                exec(&mut c, &mut cx, format!("award_block_reward miner={} penalty=0 gas=0 wins=1", mi), false, false, |c| c.award_block_reward(mi, &TokenAmount::zero(), &TokenAmount::zero(), 1));
                record_balances(&c);
                exec(&mut c, &mut cx, format!("withdraw miner={} owner=true amount=1", mi), false, false, |c| c.withdraw(mi, true, &TokenAmount::from_atto(1)));
            }
            proven_any = true;
        }
        for _step in 0..(if scripted { 0 } else { steps }) {
            if cx.stop { break; }
            let mi = r.below(c.miners.len() as u64) as usize;
            let view = c.miner_view(&c.miners[mi].id);
            let epoch = c.epoch();
            if with_faults && r.chance(1, 6) {
                // fault plan: make one tolerated nested send abort for the next message
                // only sends whose failure the caller tolerates (the property's fault quantifier)
                let mid = c.miners[mi].id.id().unwrap();
                let rules = match r.below(4) {
                    // reward -> miner ApplyRewards (reward actor burns the reward instead)
                    0 => vec![FaultRule { from: Some(2), to: Some(mid), method: Some(fil_actor_miner::Method::ApplyRewards as u64), exit: 7, ..Default::default() }],
                    // miner -> reporter reward transfer in ReportConsensusFault
                    1 => vec![FaultRule { from: Some(mid), to: Some(c.accounts[5].0.id().unwrap()), method: Some(0), exit: 7, ..Default::default() }],
                    // cron -> market CronTick
                    2 => vec![FaultRule { from: Some(3), to: Some(5), method: Some(fil_actor_market::Method::CronTick as u64), exit: 7, ..Default::default() }],
                    // miner -> market OnMinerSectorsTerminate (tolerated in cron context)
                    _ => vec![FaultRule { from: Some(mid), to: Some(5), method: Some(fil_actor_market::Method::OnMinerSectorsTerminate as u64), exit: 7, ..Default::default() }],
                };
                cx.lines.push(format!("# fault plan {:?}", rules));
                c.w.vm.fault_plan.borrow_mut().rules = rules;
            } else {
                c.w.vm.fault_plan.borrow_mut().rules.clear();
            }
            let matured: TokenAmount = view.vest.iter().filter(|(e, _)| *e < epoch).map(|(_, x)| x.clone()).sum();
            // a reward arriving while vested funds wait to be unlocked exercises the "newly vested" path
            let k = if matured.is_positive() && r.chance(1, 3) { 93 } else { r.below(128) };
            record_balances(&c);
            if k >= 100 {
                extra_op(&mut c, &mut cx, &mut r, mi, k, &view, &mut deals, &mut deal_tag, &mut pending, &mut proven_any);
            } else if k < 30 {
                // advance time: to a boundary of this miner's deadline or a prove-commit window
                let dl = c.dline_info(mi);
                let target = match r.below(7) {
                    0 => dl.last(),
                    1 => dl.close,
                    2 => dl.close + 1,
                    3 => dl.open.max(epoch + 1),
                    4 => pending[mi].first().map(|p| p.1 + c.policy.pre_commit_challenge_delay + 1).unwrap_or(epoch + 10),
                    5 => { let big = r.chance(1, 5); epoch + r.range(1, if big { 2 * c.policy.wpost_proving_period } else { 200 }) }
                    _ => epoch + r.range(1, 120),
                }.max(epoch + 1);
                cx.lines.push(format!("# advance to {}", target));
                advance(&mut c, &mut cx, target, dense && target - epoch < 400);
            } else if k < 42 {
                let n = r.range(1, 4) as usize;
                let extra = r.range(0, 3) * 2880;
                let (res, nums) = {
                    let mut out = None;
                    let res = exec(&mut c, &mut cx, format!("precommit miner={} n={}", mi, n), false, false, |c| { let (a, b) = c.precommit(mi, n, extra); out = Some(b); a });
                    (res, out.unwrap())
                };
                if res.ok() { for s in nums { pending[mi].push((s, epoch)); } }
            } else if k < 56 {
                let ready: Vec<u64> = pending[mi].iter().filter(|p| epoch > p.1 + c.policy.pre_commit_challenge_delay || r.chance(1, 10)).map(|p| p.0).collect();
                if ready.is_empty() { continue; }
                let res = exec(&mut c, &mut cx, format!("prove_commit miner={} sectors={:?}", mi, ready), false, false, |c| c.prove_commit(mi, &ready));
                if res.ok() {
                    let v2 = c.miner_view(&c.miners[mi].id);
                    pending[mi].retain(|p| !v2.live_sectors.contains(&p.0) && !ready.contains(&p.0) || false);
                    proven_any = true;
                }
            } else if k < 70 {
                // PoSt for the open deadline
                let dl = c.dline_info(mi);
                let parts: Vec<_> = view.parts.iter().filter(|p| p.0 == dl.index && !p.2.is_empty()).cloned().collect();
                if parts.is_empty() || !dl.is_open() { if r.chance(3, 4) { continue; } }
                let plist: Vec<(u64, Vec<u64>)> = parts.iter().map(|p| {
                    let skipped: Vec<u64> = if r.chance(1, 4) { p.2.iter().filter(|_| r.chance(1, 3)).cloned().collect() } else { vec![] };
                    (p.1, skipped)
                }).collect();
                let plist = if plist.is_empty() { vec![(0u64, vec![])] } else { plist };
                let invalid = r.chance(1, 15);
                exec(&mut c, &mut cx, format!("post miner={} deadline={} parts={:?} invalid={}", mi, dl.index, plist, invalid), false, false, |c| c.submit_post(mi, dl.index, dl.challenge, plist.clone(), invalid));
            } else if k < 75 {
                if let Some(p) = view.parts.iter().find(|p| !p.2.is_empty()) {
                    let s: Vec<u64> = p.2.iter().filter(|_| r.chance(1, 2)).cloned().collect();
                    let (d, pi) = (p.0, p.1);
                    exec(&mut c, &mut cx, format!("declare_faults miner={} dl={} part={} sectors={:?}", mi, d, pi, s), false, false, |c| c.declare_faults(mi, vec![(d, pi, s.clone())]));
                }
            } else if k < 80 {
                if let Some(p) = view.parts.iter().find(|p| !p.3.is_empty()) {
                    let s: Vec<u64> = p.3.clone();
                    let (d, pi) = (p.0, p.1);
                    exec(&mut c, &mut cx, format!("declare_recovered miner={} dl={} part={} sectors={:?}", mi, d, pi, s), false, false, |c| c.declare_recovered(mi, vec![(d, pi, s.clone())]));
                }
            } else if k < 84 {
                if let Some(p) = view.parts.iter().find(|p| !p.2.is_empty()) {
                    let s: Vec<u64> = p.2.iter().filter(|_| r.chance(1, 3)).cloned().collect();
                    if s.is_empty() { continue; }
                    let (d, pi) = (p.0, p.1);
                    exec(&mut c, &mut cx, format!("terminate miner={} dl={} part={} sectors={:?}", mi, d, pi, s), false, false, |c| c.terminate(mi, vec![(d, pi, s.clone())]));
                }
            } else if k < 87 {
                if let Some(p) = view.parts.iter().find(|p| !p.2.is_empty()) {
                    let s: Vec<u64> = p.2.iter().take(2).cloned().collect();
                    let (d, pi) = (p.0, p.1);
                    let ne = view.min_expiration.unwrap_or(epoch) + r.range(1, 60) * 2880;
                    exec(&mut c, &mut cx, format!("extend miner={} dl={} part={} sectors={:?} to={}", mi, d, pi, s, ne), false, false, |c| c.extend(mi, d, pi, s.clone(), ne));
                }
            } else if k < 92 {
                let avail = &view.balance - &view.pcd - &view.lf - &view.ip - &view.debt;
                let amt = match r.below(8) { 0 => avail.clone(), 1 => &avail + TokenAmount::from_atto(1), 2 => TokenAmount::from_atto(1), _ => fil(1) };
                let by_owner = r.chance(9, 10);
                exec(&mut c, &mut cx, format!("withdraw miner={} owner={} amount={}", mi, by_owner, amt.atto()), false, false, |c| c.withdraw(mi, by_owner, &amt));
            } else if k < 96 {
                let penalty = if r.chance(1, 4) { fil(r.range(0, 30)) } else { TokenAmount::zero() };
                let gas = TokenAmount::from_atto(r.range(0, 1000));
                let wins = r.range(0, 3);
                let res = exec(&mut c, &mut cx, format!("award_block_reward miner={} penalty={} gas={} wins={}", mi, penalty.atto(), gas.atto(), wins), false, false, |c| c.award_block_reward(mi, &penalty, &gas, wins));
                if res.ok() { proven_any = true; }
            } else if k < 98 {
                let fe = (epoch - r.range(1, 50)).max(0);
                exec(&mut c, &mut cx, format!("report_consensus_fault miner={} fault_epoch={}", mi, fe), false, false, |c| c.report_consensus_fault(mi, 5, fe));
            } else {
                let v = fil(r.range(0, 50));
                exec(&mut c, &mut cx, format!("repay_debt miner={} value={}", mi, v.atto()), false, false, |c| c.repay_debt(mi, &v));
            }
        }
        // C05 eventual processing: let the queues drain
        if !cx.stop && which == Which::C05 {
            c.w.vm.fault_plan.borrow_mut().rules.clear();
            let target = c.epoch() + 2 * c.policy.wpost_proving_period;
            advance(&mut c, &mut cx, target, false);
            for (i, m) in c.miners.clone().iter().enumerate() {
                let v = c.miner_view(&m.id);
                let has_claim = c.power_view().claims.contains_key(&m.id.id().unwrap());
                if v.exists && has_claim && (v.has_early_terminations || v.n_early_pending > 0) {
                    cx.violation(Which::C05, "early-terminations-never-processed", format!("miner {} still has {} sectors awaiting early-termination processing after two proving periods", i, v.n_early_pending));
                }
            }
        }
        let (agree, nontrivial, lines) = (cx.agree, cx.nontrivial, cx.lines.clone());
        drop(cx);
        if agree && lean.is_some() { rep.traces_validated += 1; }
        if nontrivial >= 5 && proven_any && seen.insert(hash_lines(&lines)) { rep.distinct_nontrivial += 1; }
        if rep.samples.len() < 2 {
            rep.samples.push(json!({"seq": seq, "ops": lines.iter().filter(|l| !l.starts_with("tick")).take(25).collect::<Vec<_>>()}));
        }
    }
    let _ = (REWARD_ACTOR_ADDR, BURNT_FUNDS_ACTOR_ADDR);
    // C01 also covers payment-channel solvency ("a payment channel holds at least what it owes the
    // payee"): a voucher/settle/collect campaign on the real paych actor, funds-related oracle kinds only
    if which == Which::C01 && sub_wanted(cfg, super::PAYCH_SEQ_BASE) {
        let sub = with_offset(cfg, super::PAYCH_SEQ_BASE, |c| crate::props::c16::run_as(c, "C01", Some(if c.thorough() { 1500 } else { 150 })));
        rep.ops += sub.ops;
        rep.ops_ok += sub.ops_ok;
        for (k, v) in sub.op_hist.iter() { *rep.op_hist.entry(format!("paych:{}", k)).or_insert(0) += v; }
        for v in sub.violations.into_iter() {
            if ["owed-outside-0-balance", "fil-not-conserved", "collect-payout-wrong", "panic", "failed-message-changed-state"].contains(&v.kind.as_str()) {
                rep.violations.push(crate::report::Violation { kind: format!("paych-{}", v.kind), detail: v.detail, replay: v.replay });
            }
        }
    }
    // ... and market solvency ("the storage market holds at least the sum of all escrow balances"):
    // theorem BA.Market.market_solvent over the market model; this sub-campaign ties that model to the
    // real market actor (every op compared with the Lean driver, burnt total and escrow table included)
    // and checks actor balance = Σ escrow independently after every message
    if which == Which::C01 && sub_wanted(cfg, super::MARKET_SEQ_BASE) {
        let sub = with_offset(cfg, super::MARKET_SEQ_BASE, |c| crate::props::market::run_n(c, "c01", Some(if c.thorough() { 150 } else { 16 })));
        rep.ops += sub.ops;
        rep.ops_ok += sub.ops_ok;
        rep.notes.push(format!("market sub-campaign: {} sequences, {} ops, {} validated against the Lean market model", sub.sequences, sub.ops, sub.traces_validated));
        for (k, v) in sub.op_hist.iter() { *rep.op_hist.entry(format!("market:{}", k)).or_insert(0) += v; }
        for (k, v) in sub.branch_hist.iter() { *rep.branch_hist.entry(format!("market:{}", k)).or_insert(0) += v; }
        for v in sub.violations.into_iter() {
            if ["market-balance-ne-escrow-sum", "locked-exceeds-escrow", "negative-balance", "burn-ne-slashed-collateral", "panic", "failed-message-changed-state"].contains(&v.kind.as_str()) {
                rep.violations.push(crate::report::Violation { kind: format!("market-{}", v.kind), detail: v.detail, replay: v.replay });
            }
        }
        for d in sub.disagreements.into_iter() { rep.disagreements.push(d); }
    }
    // ... and the reward clause ("the reward actor never pays out more than it holds"): theorems
    // BA.Reward.reward_pays_le_balance / reward_balance_nonneg over BA.Reward.award; this sub-campaign
    // runs AwardBlockReward on the real actor with its balance placed at the boundaries of the cap,
    // refusing miners and failing burns, against the Lean model and independent oracles
    if which == Which::C01 && sub_wanted(cfg, super::REWARD_SEQ_BASE) {
        let sub = with_offset(cfg, super::REWARD_SEQ_BASE, |c| crate::props::reward::run_as(c, "C01", if c.thorough() { 200 } else { 25 }));
        rep.ops += sub.ops;
        rep.ops_ok += sub.ops_ok;
        rep.notes.push(format!("reward sub-campaign: {} sequences, {} awards, {} validated against the Lean reward model", sub.sequences, sub.ops, sub.traces_validated));
        for (k, v) in sub.op_hist.iter() { *rep.op_hist.entry(format!("reward:{}", k)).or_insert(0) += v; }
        for (k, v) in sub.branch_hist.iter() { *rep.branch_hist.entry(format!("reward:{}", k)).or_insert(0) += v; }
        for (k, v) in sub.err_hist.iter() { *rep.err_hist.entry(format!("reward:{}", k)).or_insert(0) += v; }
        for v in sub.violations.into_iter() { rep.violations.push(v); }
        for d in sub.disagreements.into_iter() { rep.disagreements.push(d); }
    }
    rep
}

/// a C01 sub-campaign runs in a full run, or when `--only-seq` names one of its sequences
fn sub_wanted(cfg: &RunCfg, base: u64) -> bool {
    match cfg.only_seq { None => true, Some(k) => k >= base && k < base + 1_000_000 }
}

fn with_offset(cfg: &RunCfg, base: u64, f: impl FnOnce(&RunCfg) -> Report) -> Report {
    let sub_cfg = RunCfg { seed: cfg.seed, tier: cfg.tier.clone(), only_seq: cfg.only_seq.map(|k| k - base), out: cfg.out.clone(), use_lean: cfg.use_lean, budget: cfg.budget };
    super::SEQ_LABEL_OFFSET.store(base, std::sync::atomic::Ordering::Relaxed);
    let r = f(&sub_cfg);
    super::SEQ_LABEL_OFFSET.store(0, std::sync::atomic::Ordering::Relaxed);
    r
}
