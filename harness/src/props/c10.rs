//! C10 — verified claims back quality-adjusted power and obey their terms.
//! Part 1: sector scenarios on the real miner + verifreg + datacap actors: a sector is onboarded
//! with two verified pieces (ProveCommitSectors3 → ClaimAllocations), proven, and then extended
//! with arbitrary maintain/drop declarations; every step is diffed against the Lean models
//! (`BA.Verifreg` for the registry, `BA.SectorExt` for validate_extension_declarations /
//! extend_simple_qap_sector) and checked by an independent oracle.  Sequence 0 is the
//! deterministic witness of finding F2 (a claim id repeated in a declaration).
//! Part 2: the generic registry histories of `c09` (claim term_max monotone, removal only after
//! expiry are oracle rules there).
use super::c09::*;
use super::{RunCfg, hash_lines, seq_rng};
use crate::lean::LeanDriver;
use crate::report::{Disagreement, Report, Violation, write_replay};
use num_traits::Zero;
use crate::world::exit_class;
use fil_actor_miner::{
    CompactCommD, ExpirationExtension2, ExtendSectorExpiration2Params, Method as MinerMethod,
    PieceActivationManifest, ProveCommitSectors3Params, SectorActivationManifest, SectorClaim,
    VerifiedAllocationKey,
};
use fil_actor_verifreg::{ClaimAllocationsParams, ClaimAllocationsReturn, Method as VrMethod};
use fil_actors_integration_tests::util::{
    PrecommitMetadata, advance_by_deadline_to_epoch, advance_to_proving_deadline,
    override_compute_unsealed_sector_cid, precommit_sectors_v2, sector_deadline, sector_info,
    submit_windowed_post,
};
use fil_actors_runtime::VERIFIED_REGISTRY_ACTOR_ADDR;
use fvm_ipld_bitfield::BitField;
use fvm_ipld_encoding::RawBytes;
use fvm_shared::address::Address;
use fvm_shared::bigint::BigInt;
use fvm_shared::econ::TokenAmount;
use fvm_shared::piece::{PaddedPieceSize, PieceInfo};
use fvm_shared::sector::RegisteredSealProof;
use serde_json::json;
use std::collections::{BTreeSet, HashSet};
use std::panic::{AssertUnwindSafe, catch_unwind};
use vm_api::VM;
use vm_api::trace::InvocationTrace;

/// the statement's "final 30 days"
const DROP_PERIOD: i64 = 30 * 2880;
const SECTOR: u64 = 100;
const GIB16: i64 = 16 << 30;

#[derive(Clone, Debug)]
struct DeclS {
    new_exp: i64,
    plain: Vec<u64>,
    /// (sector, maintain, drop)
    with_claims: Vec<(u64, Vec<u64>, Vec<u64>)>,
}

fn ids(v: &[u64]) -> String {
    if v.is_empty() { "-".into() } else { v.iter().map(|x| x.to_string()).collect::<Vec<_>>().join(",") }
}

fn decl_word(d: &DeclS) -> String {
    let scs = if d.with_claims.is_empty() {
        "-".to_string()
    } else {
        d.with_claims.iter().map(|(s, m, dr)| format!("{}/{}/{}", s, ids(m), ids(dr))).collect::<Vec<_>>().join(";")
    };
    format!("{}|{}|{}", d.new_exp, ids(&d.plain), scs)
}

fn sector_line(s: &Sys, maddr: &Address) -> String {
    let si = sector_info(&s.w.vm, maddr, SECTOR);
    format!("{}:{}:{}:{}:{}", SECTOR, si.activation, si.expiration, si.power_base_epoch, si.verified_deal_weight)
}

fn find_calls<'a>(t: &'a InvocationTrace, to: &Address, method: u64, out: &mut Vec<&'a InvocationTrace>) {
    if !t.exit_code.is_success() {
        return;
    }
    if t.to == *to && t.method == method {
        out.push(t);
    }
    for s in &t.subinvocations {
        find_calls(s, to, method, out);
    }
}

struct Fail {
    kind: String,
    detail: String,
    disagreement: Option<(String, String, String)>,
}

fn viol(kind: &str, detail: String) -> Fail {
    Fail { kind: kind.into(), detail, disagreement: None }
}
fn disagree(op: String, i: String, m: String) -> Fail {
    Fail { kind: String::new(), detail: String::new(), disagreement: Some((op, i, m)) }
}

fn step(s: &Sys, op: &Op, epoch: i64, g: &mut Ghost, lean: &mut Option<LeanDriver>, lines: &mut Vec<String>, notes: &mut Vec<String>, rep: &mut Report, must_ok: bool) -> Result<(), Fail> {
    rep.op(op.name());
    rep.ops += 1;
    let o = exec_op(s, op, epoch, g, lean, lines, notes);
    if o.ok { rep.ops_ok += 1; } else { rep.err(&format!("{}:{}", op.name(), o.class)); }
    if let Some((k, d)) = o.violation {
        return Err(viol(&k, d));
    }
    if let Some((i, m)) = o.disagreement {
        return Err(disagree(lines.last().cloned().unwrap_or_default(), i, m));
    }
    if must_ok && !o.ok {
        return Err(viol("scenario-setup-failed", format!("{:?} failed ({})", op, o.class)));
    }
    Ok(())
}

fn guarded<T>(what: &str, f: impl FnOnce() -> T) -> Result<T, Fail> {
    catch_unwind(AssertUnwindSafe(f)).map_err(|p| {
        let msg = if let Some(s) = p.downcast_ref::<String>() { s.clone() } else if let Some(s) = p.downcast_ref::<&str>() { s.to_string() } else { "panic".into() };
        viol("scenario-setup-failed", format!("{}: {}", what, msg))
    })
}

/// One sector scenario. `witness` = the fixed F2 history; otherwise declarations are random.
fn scenario(cfg: &RunCfg, seq: u64, witness: bool, lean: &mut Option<LeanDriver>, rep: &mut Report, lines: &mut Vec<String>, nontrivial: &mut bool) -> Result<(), Fail> {
    let mut r = seq_rng(cfg.seed, seq);
    let s = setup(3, 1);
    override_compute_unsealed_sector_cid(&s.w.vm);
    let vm = &s.w.vm;
    let (owner, verifier, client) = (s.accounts[0], s.accounts[1].id().unwrap(), s.accounts[2].id().unwrap());
    let maddr = s.miners[0];
    let miner = maddr.id().unwrap();
    let mut epoch: i64 = 5;
    vm.set_epoch(epoch);
    lines.push(s.init_line());
    if let Some(l) = lean.as_mut() {
        let m = l.ask(&lines[0]).unwrap();
        let i = format!("ok | {}", show(&project(&s)));
        if m != i {
            return Err(disagree("init".into(), i, m));
        }
    }
    let mut g = Ghost::default();
    let mut notes: Vec<String> = vec![];
    // --- datacap for the client, two allocations of 16 GiB with different maximum terms
    let grant: BigInt = BigInt::from(GIB16) * BigInt::from(8);
    step(&s, &Op::AddVerifier { caller: ROOT_ID, addr: verifier, allowance: grant.clone() * BigInt::from(2) }, epoch, &mut g, lean, lines, &mut notes, rep, true)?;
    step(&s, &Op::AddClient { caller: verifier, client, allowance: grant.clone() }, epoch, &mut g, lean, lines, &mut notes, rep, true)?;
    let sector_expiry = epoch + MIN_TERM + 40 * 2880;
    let term_a = if witness { MAX_TERM } else { MAX_TERM - r.range(0, 500) * 1000 };
    // B's maximum term ends shortly after the sector's initial expiration
    let term_b = MIN_TERM + 45 * 2880 + if witness { 0 } else { r.range(0, 20) * 2880 };
    let (term_first, term_second) = if witness || r.chance(1, 2) { (term_a, term_b) } else { (term_b, term_a) };
    let areq = |data: u64, tmax: i64| AReq { provider: miner, data, size: GIB16, term_min: MIN_TERM, term_max: tmax, expiration: epoch + 2000 };
    let before_ids = project(&s).next;
    step(
        &s,
        &Op::Transfer { caller: client, to: VERIFREG_ID, amount: BigInt::from(2 * GIB16) * prec(), data: Some((vec![areq(1, term_first), areq(2, term_second)], vec![])) },
        epoch, &mut g, lean, lines, &mut notes, rep, true,
    )?;
    let (id1, id2) = (before_ids, before_ids + 1);
    // --- pre-commit and prove-commit sector 100 holding the two pieces
    let seal_proof = RegisteredSealProof::StackedDRG32GiBV1P1;
    let pieces: Vec<PieceInfo> = vec![
        PieceInfo { cid: s.cid_of(1), size: PaddedPieceSize(GIB16 as u64) },
        PieceInfo { cid: s.cid_of(2), size: PaddedPieceSize(GIB16 as u64) },
    ];
    let commd = vm.primitives().compute_unsealed_sector_cid(seal_proof, &pieces).unwrap();
    let meta = PrecommitMetadata { deals: vec![], commd: CompactCommD::of(commd) };
    guarded("precommit", || {
        precommit_sectors_v2(vm, 1, vec![meta.clone()], &owner, &maddr, seal_proof, SECTOR, true, Some(sector_expiry));
    })?;
    lines.push(format!("# miner {} pre-commits sector {} expiring at {}", miner, SECTOR, sector_expiry));
    guarded("advance to prove-commit", || {
        advance_by_deadline_to_epoch(vm, &maddr, vm.epoch() + 151);
    })?;
    epoch = vm.epoch();
    lines.push(format!("# epoch {}", epoch));
    s.w.take_trace();
    let before = project(&s);
    let manifests = vec![SectorActivationManifest {
        sector_number: SECTOR,
        pieces: vec![
            PieceActivationManifest { cid: s.cid_of(1), size: PaddedPieceSize(GIB16 as u64), verified_allocation_key: Some(VerifiedAllocationKey { client, id: id1 }), notify: vec![] },
            PieceActivationManifest { cid: s.cid_of(2), size: PaddedPieceSize(GIB16 as u64), verified_allocation_key: Some(VerifiedAllocationKey { client, id: id2 }), notify: vec![] },
        ],
    }];
    let pc = s.w.apply(
        &owner, &maddr, &TokenAmount::zero(), MinerMethod::ProveCommitSectors3 as u64,
        Some(ProveCommitSectors3Params {
            sector_activations: manifests,
            sector_proofs: vec![RawBytes::new(vec![1, 2, 3, 4])],
            aggregate_proof: RawBytes::default(),
            aggregate_proof_type: None,
            require_activation_success: true,
            require_notification_success: true,
        }),
    );
    let traces = s.w.take_trace();
    if !pc.ok() {
        return Err(viol("scenario-setup-failed", format!("ProveCommitSectors3 failed: {} {}", exit_class(pc.code), pc.message)));
    }
    // the miner's ClaimAllocations call, as observed in the trace, is the model's `claim` op
    let mut calls = vec![];
    for t in &traces {
        find_calls(t, &VERIFIED_REGISTRY_ACTOR_ADDR, VrMethod::ClaimAllocations as u64, &mut calls);
    }
    if calls.len() != 1 {
        return Err(viol("scenario-setup-failed", format!("expected one ClaimAllocations call, saw {}", calls.len())));
    }
    let cp: ClaimAllocationsParams = calls[0].params.clone().unwrap().deserialize().unwrap();
    let cr: ClaimAllocationsReturn = calls[0].return_value.clone().unwrap().deserialize().unwrap();
    let sreqs: Vec<SReq> = cp.sectors.iter().map(|x| SReq {
        sector: x.sector, expiry: x.expiry,
        claims: x.claims.iter().map(|c| CReq { client: c.client, id: c.allocation_id, data: s.data_of(&c.data), size: c.size.0 as i64 }).collect(),
    }).collect();
    let cop = Op::Claim { caller: calls[0].from, aon: cp.all_or_nothing, sectors: sreqs.clone() };
    let cline = format!("claim {} {} {} {}", epoch, calls[0].from, cp.all_or_nothing as u8, sreqs_line(&sreqs));
    let ret = format!(
        "codes={} ids=- amounts={}",
        cr.sector_results.codes().iter().map(|c| c.value().to_string()).collect::<Vec<_>>().join(","),
        cr.sector_claims.iter().map(|x| x.claimed_space.to_string()).collect::<Vec<_>>().join(",")
    );
    let after = project(&s);
    rep.op("claim-by-prove-commit");
    rep.ops += 1;
    rep.ops_ok += 1;
    let o = observe(&cop, &cline, true, &ret, &before, &after, &traces, epoch, &mut g, lean, lines, &mut notes);
    if let Some((k, d)) = o.violation { return Err(viol(&k, d)); }
    if let Some((i, m)) = o.disagreement { return Err(disagree(cline, i, m)); }
    let mut backing: BTreeSet<u64> = [id1, id2].into_iter().collect();
    // --- first window PoSt so that the sector is active
    guarded("window post", || {
        let (dl, pidx) = advance_to_proving_deadline(vm, &maddr, SECTOR);
        submit_windowed_post(vm, &owner, &maddr, dl, pidx, None);
    })?;
    s.w.take_trace();
    epoch = vm.epoch();
    lines.push(format!("# epoch {} (sector proven)", epoch));
    // register the sector record with the model
    let si0 = sector_info(vm, &maddr, SECTOR);
    let sline = format!("sector {} {} {} {} {}", SECTOR, si0.activation, si0.expiration, si0.power_base_epoch, si0.verified_deal_weight);
    lines.push(sline.clone());
    if let Some(l) = lean.as_mut() {
        let m = l.ask(&sline).unwrap();
        let i = format!("ok | {}", sector_line(&s, &maddr));
        if m != i { return Err(disagree(sline, i, m)); }
    }
    let check_backing = |backing: &BTreeSet<u64>, what: &str| -> Result<(), Fail> {
        let p = project(&s);
        let si = sector_info(vm, &maddr, SECTOR);
        let mut total: i64 = 0;
        for k in backing {
            let c = match p.claims.get(k) {
                Some(c) => c,
                None => return Err(viol("backing-claim-missing", format!("{}: claim {} of sector {} is gone", what, k, SECTOR))),
            };
            total += c.size;
            if c.provider != miner || c.sector != SECTOR || c.term_start < si.activation {
                return Err(viol("backing-claim-mismatch", format!("{}: claim {} {:?} sector activation {}", what, k, c, si.activation)));
            }
            if si.expiration < c.term_start + c.term_min || si.expiration > c.term_start + c.term_max {
                return Err(viol(
                    if si.expiration > c.term_start + c.term_max { "extension-past-claim-term-max-without-drop" } else { "sector-expiration-below-claim-term-min" },
                    format!("{}: sector {} expires at {} but claim {} (not dropped) allows [{}, {}]", what, SECTOR, si.expiration, k, c.term_start + c.term_min, c.term_start + c.term_max),
                ));
            }
        }
        let dur = si.expiration - si.power_base_epoch;
        let space = &si.verified_deal_weight / BigInt::from(dur.max(1));
        if space != BigInt::from(total) {
            return Err(viol("verified-space-ne-backing-claims", format!("{}: verified space {} backing claims {}", what, space, total)));
        }
        Ok(())
    };
    check_backing(&backing, "after onboarding")?;
    *nontrivial = true;
    // --- extension attempts
    let (d_idx, p_idx) = sector_deadline(vm, &maddr, SECTOR);
    let p0 = project(&s);
    let end = |k: u64| p0.claims[&k].term_start + p0.claims[&k].term_max;
    let (short, long) = if end(id1) <= end(id2) { (id1, id2) } else { (id2, id1) };
    let short_end = end(short);
    let mut attempts: Vec<Vec<DeclS>> = vec![];
    let one = |ne: i64, m: Vec<u64>, d: Vec<u64>| vec![DeclS { new_exp: ne, plain: vec![], with_claims: vec![(SECTOR, m, d)] }];
    if seq == 1 {
        // second witness: the sector listed in two declarations of one message; its claims are
        // validated against the first declaration's new expiration only
        let ne = short_end + 2880;
        attempts.push(vec![
            DeclS { new_exp: si0.expiration, plain: vec![], with_claims: vec![(SECTOR, vec![long, short], vec![])] },
            DeclS { new_exp: ne, plain: vec![SECTOR], with_claims: vec![] },
        ]);
    } else if witness {
        let ne = short_end + 2880;
        attempts.push(one(ne, vec![long, short], vec![]));        // refused: short claim's term
        attempts.push(one(ne, vec![long], vec![short]));          // refused: not in the final 30 days
        attempts.push(one(ne, vec![long, long], vec![]));         // F2: accepted by the unpatched code
    } else {
        let n = r.range(4, 8);
        for _ in 0..n {
            let ne = match r.below(7) {
                0 => short_end,
                1 => short_end + 1,
                2 => short_end - 1,
                3 => si0.expiration,
                4 => si0.expiration - 1,
                5 => short_end + r.range(1, 100) * 2880,
                _ => si0.expiration + r.range(0, 10) * 2880,
            };
            let pool: [Vec<u64>; 9] = [vec![long, short], vec![short, long], vec![long], vec![short], vec![long, long], vec![short, short], vec![long, long, short], vec![], vec![long, 9999]];
            let dpool: [Vec<u64>; 5] = [vec![], vec![], vec![short], vec![long], vec![short, short]];
            let m = r.pick(&pool).clone();
            let d = r.pick(&dpool).clone();
            match r.below(6) {
                0 => {
                    // the sector's claims split over two declarations of the message
                    let (m1, m2) = if m.len() >= 2 { (vec![m[0]], m[1..].to_vec()) } else { (m.clone(), m.clone()) };
                    attempts.push(vec![
                        DeclS { new_exp: ne, plain: vec![], with_claims: vec![(SECTOR, m1, vec![])] },
                        DeclS { new_exp: ne, plain: vec![], with_claims: vec![(SECTOR, m2, d)] },
                    ]);
                }
                1 => attempts.push(vec![DeclS { new_exp: ne, plain: vec![SECTOR], with_claims: vec![] }]),
                3 => {
                    // the sector in two declarations with different new expirations
                    let first = if r.chance(1, 2) { si0.expiration } else { short_end - r.range(0, 3) };
                    let second = DeclS { new_exp: ne, plain: if r.chance(1, 2) { vec![SECTOR] } else { vec![] }, with_claims: vec![] };
                    let second = if second.plain.is_empty() { DeclS { with_claims: vec![(SECTOR, vec![], vec![])], ..second } } else { second };
                    attempts.push(vec![DeclS { new_exp: first, plain: vec![], with_claims: vec![(SECTOR, m, d)] }, second]);
                }
                2 => attempts.push(vec![DeclS { new_exp: ne, plain: vec![], with_claims: vec![(SECTOR, vec![m.first().cloned().unwrap_or(long)], vec![]), (SECTOR, vec![m.last().cloned().unwrap_or(long)], d)] }]),
                _ => attempts.push(one(ne, m, d)),
            }
        }
    }
    for decls in attempts {
        if !witness && r.chance(1, 3) {
            epoch += 1;
            vm.set_epoch(epoch);
            lines.push(format!("# epoch {}", epoch));
        }
        let params = ExtendSectorExpiration2Params {
            extensions: decls.iter().map(|d| {
                let mut bf = BitField::new();
                for x in &d.plain { bf.set(*x); }
                ExpirationExtension2 {
                    deadline: d_idx, partition: p_idx, sectors: bf,
                    sectors_with_claims: d.with_claims.iter().map(|(sn, m, dr)| SectorClaim { sector_number: *sn, maintain_claims: m.clone(), drop_claims: dr.clone() }).collect(),
                    new_expiration: d.new_exp,
                }
            }).collect(),
        };
        let line = format!("extend {} {} {}", epoch, miner, decls.iter().map(decl_word).collect::<Vec<_>>().join(" "));
        let si_before = sector_info(vm, &maddr, SECTOR);
        let root = vm.checkpoint();
        let res = s.w.apply(&owner, &maddr, &TokenAmount::zero(), MinerMethod::ExtendSectorExpiration2 as u64, Some(params));
        s.w.take_trace();
        if res.panicked { vm.rollback(root); }
        lines.push(line.clone());
        rep.op("extend");
        rep.ops += 1;
        if res.ok() { rep.ops_ok += 1; rep.branch("extension-accepted"); } else { rep.err(&format!("extend:{}", exit_class(res.code))); }
        if res.panicked {
            return Err(viol("panic", res.message.clone()));
        }
        // declared ids of the sector, over all declarations of the message
        let mut declared: Vec<u64> = vec![];
        let mut dropped: BTreeSet<u64> = BTreeSet::new();
        for d in &decls {
            for (sn, m, dr) in &d.with_claims {
                if *sn == SECTOR {
                    declared.extend(m.iter().cloned());
                    declared.extend(dr.iter().cloned());
                    dropped.extend(dr.iter().cloned());
                }
            }
        }
        let mut seen = HashSet::new();
        let repeated = declared.iter().any(|x| !seen.insert(*x));
        let listing = decls.iter().filter(|d| d.plain.contains(&SECTOR) || d.with_claims.iter().any(|x| x.0 == SECTOR)).count();
        let what = format!(
            "ExtendSectorExpiration2 at epoch {} declaring {}{}{}",
            epoch,
            decls.iter().map(decl_word).collect::<Vec<_>>().join(" "),
            if repeated { " (repeated claim id in declaration)" } else { "" },
            if !repeated && listing > 1 { " (sector listed in more than one declaration)" } else { "" }
        );
        if res.ok() {
            let really_dropped: BTreeSet<u64> = backing.intersection(&dropped).cloned().collect();
            if !really_dropped.is_empty() && si_before.expiration - epoch > DROP_PERIOD {
                return Err(viol("claims-dropped-outside-final-30-days", format!("{}: {} epochs of sector life remained", what, si_before.expiration - epoch)));
            }
            for k in &really_dropped { backing.remove(k); }
            if !really_dropped.is_empty() { rep.branch("claims-dropped"); }
            check_backing(&backing, &what)?;
        } else if sector_line(&s, &maddr) != format!("{}:{}:{}:{}:{}", SECTOR, si_before.activation, si_before.expiration, si_before.power_base_epoch, si_before.verified_deal_weight) {
            return Err(viol("failed-message-changed-state", what));
        }
        if let Some(l) = lean.as_mut() {
            let m = l.ask(&line).unwrap();
            let i = format!("{} | {}", if res.ok() { "ok" } else { "err" }, sector_line(&s, &maddr));
            let m_norm = if m.starts_with("err ") { format!("err | {}", m.splitn(2, " | ").nth(1).unwrap_or("")) } else { m.clone() };
            if m_norm != i {
                return Err(disagree(line, i, m));
            }
        }
    }
    for n in notes { if !rep.notes.contains(&n) { rep.notes.push(n); } }
    Ok(())
}

pub fn run(cfg: &RunCfg) -> Report {
    let mut rep = Report::new("C10", cfg.seed, &cfg.tier);
    rep.nontrivial_rule = "a sector scenario is non-trivial when the sector was onboarded with two verified claims and at least one extension declaration was evaluated; a registry history is non-trivial when an allocation was claimed or refunded; distinct = distinct hash of the op lines".into();
    let n_scen = (if cfg.thorough() { 300u64 } else { 12 }) * cfg.budget;
    let mut lean = if cfg.use_lean { Some(LeanDriver::spawn("verifreg").expect("lean driver")) } else { None };
    let mut seen = HashSet::new();
    let seqs: Vec<u64> = match cfg.only_seq {
        Some(k) => if k < 1000 { vec![k] } else { vec![] },
        None => (0..n_scen).collect(),
    };
    for seq in seqs {
        let mut lines = vec![];
        let mut nontrivial = false;
        rep.sequences += 1;
        let r = scenario(cfg, seq, seq == 0, &mut lean, &mut rep, &mut lines, &mut nontrivial);
        let hdr = vec![
            format!("property C10 seed {} seq {} (re-run: ba_harness c10 --seed {} --only-seq {})", cfg.seed, seq, cfg.seed, seq),
            "sector scenario: real miner + verifreg + datacap; lines starting with # are harness actions (pre-commit, epochs, PoSt)".to_string(),
        ];
        match r {
            Ok(()) => {
                if lean.is_some() { rep.traces_validated += 1; }
            }
            Err(f) => {
                if let Some((op, i, m)) = f.disagreement {
                    let path = write_replay("C10", &format!("corr-{}-{}", cfg.seed, seq), &hdr, &lines);
                    rep.disagreements.push(Disagreement { seq, step: lines.len() as u64, op, impl_out: i, model_out: m, replay: path });
                } else {
                    let path = write_replay("C10", &format!("{}-{}", cfg.seed, seq), &hdr, &lines);
                    rep.violations.push(Violation { kind: f.kind, detail: f.detail, replay: path });
                    // the model keeps running on the implementation's state: re-synchronise
                    if lean.is_some() { lean = Some(LeanDriver::spawn("verifreg").expect("lean driver")); }
                }
            }
        }
        if nontrivial && seen.insert(hash_lines(&lines)) { rep.distinct_nontrivial += 1; }
        if rep.samples.len() < 2 && nontrivial {
            rep.samples.push(json!({"seq": seq, "ops": lines.iter().rev().take(6).rev().collect::<Vec<_>>()}));
        }
    }
    // part 2: registry histories (term_max monotone, removal only after expiry, …)
    let (nseq, maxlen) = if cfg.thorough() { (1000u64, 300u64) } else { (40, 70) };
    run_generic("C10", cfg, &mut rep, nseq * cfg.budget, maxlen, 1000);
    rep
}
