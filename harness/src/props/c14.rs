//! C14 — miner funds unlock only on schedule; withdrawals never touch collateral.
//!
//! (i)  DS level: the real `fil_actor_miner::VestingFunds` (in-memory blockstore) under random
//!      interleavings of add_locked_funds / unlock_vested_funds / unlock_vested_and_unvested_funds
//!      ⇄ the Lean `BA.Vesting` model (raw head/tail representation compared after every op),
//!      plus an oracle that re-derives the expected table from the property statement
//!      (closed-form linear schedule, earliest-first consumption, Σ conservation).
//! (ii) Actor level: a real miner in the vvm (plain `CreateMiner` through the power actor),
//!      ApplyRewards (from the reward actor), ChangeBeneficiary, WithdrawBalance by
//!      owner / beneficiary / worker / stranger at any epoch ⇄ the Lean `BA.MinerFunds.withdraw`
//!      step (model state re-synchronised from the real state before each withdrawal), plus an
//!      oracle on the balance deltas.
use super::{RunCfg, hash_lines, seq_rng};
use crate::lean::LeanDriver;
use crate::report::{Disagreement, Report, Violation, write_replay};
use crate::rng::Rng;
use crate::world::{World, exit_class};
use cid::Cid;
use fil_actor_miner::{
    ApplyRewardParams, ChangeBeneficiaryParams, Method as MinerMethod, QuantSpec,
    REWARD_VESTING_SPEC, State as MinerState, VestSpec, VestingFund, VestingFunds,
    WithdrawBalanceParams, WithdrawBalanceReturn, locked_reward_from_reward,
};
use fil_actor_power::{CreateMinerParams, CreateMinerReturn, Method as PowerMethod};
use fil_actors_runtime::test_blockstores::MemoryBlockstore;
use fil_actors_runtime::{BURNT_FUNDS_ACTOR_ADDR, REWARD_ACTOR_ADDR, STORAGE_POWER_ACTOR_ADDR};
use fvm_ipld_bitfield::BitField;
use fvm_ipld_encoding::{BytesDe, CborStore};
use fvm_shared::address::Address;
use fvm_shared::bigint::BigInt;
use fvm_shared::econ::TokenAmount;
use fvm_shared::sector::RegisteredPoStProof;
use fvm_shared::METHOD_SEND;
use num_traits::Zero;
use serde_json::json;
use std::collections::{BTreeMap, HashSet};
use vm_api::VM;
use vm_api::util::{get_state, mutate_state};

// ---- the values the property states (not read from the code) ----
const SPEC_VEST_PERIOD: i64 = 180 * 2880; // 180 days of 30 s epochs
const SPEC_STEP: i64 = 2880; // one day
const SPEC_QUANT: i64 = 1440; // 12 h
const SPEC_LOCK_NUM: i128 = 75;
const SPEC_LOCK_DEN: i128 = 100;

fn tok(n: i128) -> TokenAmount {
    TokenAmount::from_atto(BigInt::from(n))
}
fn atto_i128(t: &TokenAmount) -> i128 {
    t.atto().to_string().parse::<i128>().expect("amount fits i128")
}

type Tbl = Vec<(i64, i128)>;

fn tbl_of(funds: &[VestingFund]) -> Tbl {
    funds.iter().map(|f| (f.epoch, atto_i128(&f.amount))).collect()
}
fn tbl_sum(t: &Tbl) -> i128 {
    t.iter().map(|x| x.1).sum()
}
/// epoch → Σ amount, zero totals dropped (zero-amount entries hold no funds)
fn tbl_map(t: &Tbl) -> BTreeMap<i64, i128> {
    let mut m = BTreeMap::new();
    for (e, a) in t {
        *m.entry(*e).or_insert(0i128) += *a;
    }
    m.retain(|_, a| *a != 0);
    m
}
fn show_tbl(t: &Tbl) -> String {
    if t.is_empty() {
        "-".into()
    } else {
        t.iter().map(|(e, a)| format!("{}:{}", e, a)).collect::<Vec<_>>().join(",")
    }
}

/// raw representation of a `VestingFunds` (its fields are private: go through its CBOR form)
fn raw_of(vf: &VestingFunds, store: &MemoryBlockstore) -> Option<((i64, i128), Tbl)> {
    let bytes = fvm_ipld_encoding::to_vec(vf).unwrap();
    let raw: Option<(VestingFund, Cid)> = fvm_ipld_encoding::from_slice(&bytes).unwrap();
    raw.map(|(h, tail)| {
        let t: Vec<VestingFund> = store.get_cbor(&tail).unwrap().unwrap();
        ((h.epoch, atto_i128(&h.amount)), tbl_of(&t))
    })
}
fn show_raw(r: &Option<((i64, i128), Tbl)>) -> String {
    match r {
        None => "none".into(),
        Some((h, t)) => format!("H {}:{} T {}", h.0, h.1, show_tbl(t)),
    }
}

// ---------------------------------------------------------------- oracle helpers (from the statement)

/// least grid point (unit·k + offset) at or after `e`
fn spec_quantize_up(unit: i64, offset: i64, e: i64) -> i64 {
    let d = (e - offset).rem_euclid(unit);
    if d == 0 { e } else { e + (unit - d) }
}
fn floor_div(a: i128, b: i128) -> i128 {
    let q = a / b;
    if (a % b != 0) && ((a < 0) != (b < 0)) { q - 1 } else { q }
}
/// the linear schedule as the property states it: entry i at the quantised begin + i·step, the
/// cumulative amount through epoch e is ⌊sum·(e−begin)/period⌋, all of `sum` after a full period
fn spec_schedule(cur: i64, sum: i128, pps: i64, delay: i64, period: i64, step: i64, quant: i64) -> Tbl {
    let begin = cur + delay;
    let mut out = vec![];
    let mut prev: i128 = 0;
    let mut i: i64 = 1;
    while prev < sum {
        let e = spec_quantize_up(quant, pps, begin + i * step);
        let elapsed = e - begin;
        let target = if elapsed < period { floor_div(sum * elapsed as i128, period as i128) } else { sum };
        out.push((e, target - prev));
        prev = target;
        i += 1;
        assert!(i < 100_000, "oracle schedule does not terminate");
    }
    out
}
fn vested_sum(t: &Tbl, cur: i64) -> i128 {
    t.iter().filter(|x| x.0 < cur).map(|x| x.1).sum()
}
fn unvested(t: &Tbl, cur: i64) -> Tbl {
    t.iter().filter(|x| x.0 >= cur).cloned().collect()
}
/// take `target` out of a table, earliest entries first
fn spec_consume(t: &Tbl, mut target: i128) -> Tbl {
    let mut t = t.clone();
    t.sort_by_key(|x| x.0);
    let mut out = vec![];
    for (e, a) in t {
        let take = target.min(a).max(0);
        target -= take;
        out.push((e, a - take));
    }
    out
}
fn sorted_by_epoch(t: &Tbl, strict: bool) -> bool {
    t.windows(2).all(|w| if strict { w[0].0 < w[1].0 } else { w[0].0 <= w[1].0 })
}

// ---------------------------------------------------------------- (i) DS level

#[derive(Clone, Debug)]
struct Spec {
    delay: i64,
    period: i64,
    step: i64,
    quant: i64,
}
impl Spec {
    fn real() -> Spec {
        Spec {
            delay: REWARD_VESTING_SPEC.initial_delay,
            period: REWARD_VESTING_SPEC.vest_period,
            step: REWARD_VESTING_SPEC.step_duration,
            quant: REWARD_VESTING_SPEC.quantization,
        }
    }
    fn vest(&self) -> VestSpec {
        VestSpec {
            initial_delay: self.delay,
            vest_period: self.period,
            step_duration: self.step,
            quantization: self.quant,
        }
    }
}

fn gen_sum(r: &mut Rng) -> i128 {
    match r.below(12) {
        0 => 0,
        1 => 1,
        2 => r.range(2, 179) as i128,
        3 => 180,
        4 => r.range(181, 100_000) as i128,
        5 => -(r.range(1, 1000) as i128),
        6 | 7 => (r.range(1, 1_000_000_000) as i128) * 1_000_000_000i128 * (r.range(1, 1000) as i128),
        8 => 518_400 * (r.range(1, 1000) as i128),
        _ => r.range(1, 1_000_000_000_000) as i128,
    }
}

fn ds_sequence(cfg: &RunCfg, seq: u64, rep: &mut Report, lean: &mut Option<LeanDriver>, seen: &mut HashSet<u64>) {
    let mut r = seq_rng(cfg.seed, seq);
    let store = MemoryBlockstore::new();
    let mut vf = VestingFunds::new();
    let maxlen = if cfg.thorough() { 120 } else { 40 };
    let len = r.range(4, maxlen);
    // half of the sequences use only the real spec, the others also small ones (boundaries are
    // reachable with small numbers: equal epochs, step < quantisation, period not a multiple of step)
    let only_real = r.chance(1, 2);
    let mut epoch: i64 = if r.chance(1, 6) { r.range(-3000, 10) } else { r.range(0, 2_000_000) };
    let pps_fixed: i64 = if r.chance(1, 2) { epoch - r.range(0, 2880) } else { r.range(-5000, 5000) };
    let mut lines: Vec<String> = vec!["new".into()];
    let mut agree = true;
    let mut locked: i128 = 0;
    let mut unlocked: i128 = 0;
    let mut nontrivial = false;
    let mut strict_sorted = true; // every spec used so far has step >= quantisation
    let mut neg_target_used = false;
    if let Some(l) = lean.as_mut() {
        l.ask("new").unwrap();
    }
    rep.sequences += 1;
    for step in 0..len {
        let before = tbl_of(&vf.load(&store).unwrap());
        let hdr = |what: &str| {
            vec![
                format!("property C14 (vesting table) seed {} seq {} (re-run: ba_harness c14 --seed {} --only-seq {})", cfg.seed, seq, cfg.seed, seq),
                format!("failing step {}: {}", step, what),
            ]
        };
        let k = r.below(100);
        // ---- advance the clock (biased to the vesting boundaries of the current table)
        if k < 30 {
            let e = if !before.is_empty() && r.chance(2, 3) {
                let i = r.below(before.len().min(6) as u64) as usize;
                before[i].0 + r.range(-1, 2)
            } else if only_real {
                epoch + r.range(0, 3) * 2880 + r.range(0, 1500)
            } else {
                epoch + r.range(0, 40)
            };
            epoch = e.max(epoch);
            lines.push(format!("# epoch {}", epoch));
            rep.op("advance");
            continue;
        }
        let (line, impl_out, viol): (String, String, Option<(String, String)>);
        if k < 60 {
            // ---- add_locked_funds
            let spec = if only_real || r.chance(1, 3) {
                Spec::real()
            } else {
                Spec { delay: r.range(0, 10), period: r.range(0, 200), step: r.range(1, 30), quant: r.range(1, 20) }
            };
            if spec.step < spec.quant {
                strict_sorted = false;
            }
            let pps = if r.chance(3, 4) { pps_fixed } else { r.range(-100_000, 2_000_000) };
            let sum = gen_sum(&mut r);
            line = format!("add {} {} {} {} {} {} {}", epoch, sum, pps, spec.delay, spec.period, spec.step, spec.quant);
            let res = vf.add_locked_funds(&store, epoch, &tok(sum), pps, &spec.vest());
            rep.op("add");
            match res {
                Ok(u) => {
                    let u = atto_i128(&u);
                    let after = tbl_of(&vf.load(&store).unwrap());
                    let eff = sum.max(0);
                    locked += eff;
                    unlocked += u;
                    impl_out = format!("ok {} | {}", u, show_raw(&raw_of(&vf, &store)));
                    // oracle: only already-vested old funds are released, the new schedule is the linear one
                    let sched = spec_schedule(epoch, eff, pps, spec.delay, spec.period, spec.step, spec.quant);
                    let mut expect = before.clone();
                    expect.extend(sched.iter().cloned());
                    let expect_after = unvested(&expect, epoch);
                    viol = if u != vested_sum(&before, epoch) {
                        Some(("add-unlocked-not-the-vested-old-funds".into(), format!("returned {} expected {}", u, vested_sum(&before, epoch))))
                    } else if sched.iter().any(|x| x.0 <= epoch + spec.delay || x.1 < 0) || tbl_sum(&sched) != eff {
                        Some(("oracle-schedule-inconsistent".into(), format!("{:?}", &sched[..sched.len().min(4)])))
                    } else if tbl_map(&after) != tbl_map(&expect_after) {
                        let (a, b) = (tbl_map(&after), tbl_map(&expect_after));
                        let diff: Vec<String> = a.iter().filter(|(k, v)| b.get(k) != Some(v)).take(3).map(|(k, v)| format!("{}:{}≠{:?}", k, v, b.get(k))).collect();
                        Some(("schedule-not-linear".into(), format!("table after add differs from old ∪ linear schedule (sum {} at {} pps {} spec {:?}): {} …", sum, epoch, pps, spec, diff.join(" "))))
                    } else if spec.period == SPEC_VEST_PERIOD && spec.step == SPEC_STEP && spec.quant == SPEC_QUANT && eff > 0 && sched.len() != 180 {
                        Some(("not-180-daily-steps".into(), format!("{} entries", sched.len())))
                    } else {
                        None
                    };
                    if eff > 0 {
                        nontrivial = true;
                    }
                }
                Err(e) => {
                    rep.err(&format!("add:{}", exit_class(e.exit_code())));
                    impl_out = format!("err | {}", show_raw(&raw_of(&vf, &store)));
                    viol = None;
                }
            }
        } else if k < 80 {
            // ---- unlock_vested_funds
            line = format!("unlock {}", epoch);
            let u = atto_i128(&vf.unlock_vested_funds(&store, epoch).unwrap());
            let after = tbl_of(&vf.load(&store).unwrap());
            unlocked += u;
            rep.op("unlock");
            impl_out = format!("ok {} | {}", u, show_raw(&raw_of(&vf, &store)));
            viol = if u != vested_sum(&before, epoch) {
                Some(("unlock-amount-wrong".into(), format!("at {} returned {} but Σ(epoch<{}) = {}", epoch, u, epoch, vested_sum(&before, epoch))))
            } else if tbl_map(&after) != tbl_map(&unvested(&before, epoch)) {
                Some(("early-unlock-or-lost-entry".into(), format!("at {}: table {} -> {}", epoch, show_tbl(&before.iter().take(4).cloned().collect()), show_tbl(&after.iter().take(4).cloned().collect()))))
            } else {
                None
            };
            if u > 0 {
                nontrivial = true;
            }
        } else {
            // ---- unlock_vested_and_unvested_funds
            let unv = unvested(&before, epoch);
            let total_unv = tbl_sum(&unv);
            let head = unv.first().map(|x| x.1).unwrap_or(0);
            let target: i128 = match r.below(12) {
                0 => 0,
                1 => head,
                2 => head + 1,
                3 => (head - 1).max(0),
                4 => total_unv,
                5 => total_unv + r.range(1, 5) as i128,
                6 => unv.iter().take(r.range(1, 4) as usize).map(|x| x.1).sum::<i128>() + r.range(-1, 1) as i128,
                7 => { if r.chance(1, 3) { neg_target_used = true; -(r.range(1, 50) as i128) } else { 1 } }
                _ => if total_unv > 0 { (r.next() as i128).rem_euclid(total_unv + 1) } else { r.range(0, 10) as i128 },
            };
            if target < 0 { neg_target_used = true; }
            line = format!("forced {} {}", epoch, target);
            let (v, u) = vf.unlock_vested_and_unvested_funds(&store, epoch, &tok(target)).unwrap();
            let (v, u) = (atto_i128(&v), atto_i128(&u));
            let after = tbl_of(&vf.load(&store).unwrap());
            unlocked += v + u;
            rep.op("forced");
            impl_out = format!("ok {} {} | {}", v, u, show_raw(&raw_of(&vf, &store)));
            viol = if target < 0 {
                None // outside the domain of the statement; model and code are still compared
            } else if v != vested_sum(&before, epoch) {
                Some(("forced-vested-wrong".into(), format!("vested {} expected {}", v, vested_sum(&before, epoch))))
            } else if v + u != vested_sum(&before, epoch) + target.min(total_unv) || u != target.min(total_unv) {
                Some(("forced-amount-wrong".into(), format!("at {} target {}: (vested {}, unvested {}) expected ({}, {})", epoch, target, v, u, vested_sum(&before, epoch), target.min(total_unv))))
            } else if tbl_map(&after) != tbl_map(&spec_consume(&unv, target)) {
                Some(("forced-not-earliest-first".into(), format!("at {} target {}: table {} -> {}", epoch, target, show_tbl(&before.iter().take(4).cloned().collect()), show_tbl(&after.iter().take(4).cloned().collect()))))
            } else {
                None
            };
            if u > 0 {
                nontrivial = true;
            }
        }
        rep.ops += 1;
        rep.ops_ok += 1;
        lines.push(line.clone());
        // ---- global oracle: conservation, order, signs
        let after = tbl_of(&vf.load(&store).unwrap());
        let viol = viol.or_else(|| {
            if tbl_sum(&after) + unlocked != locked {
                Some(("vesting-sum-not-conserved".into(), format!("Σtable {} + Σunlocked {} ≠ Σlocked {}", tbl_sum(&after), unlocked, locked)))
            } else if !sorted_by_epoch(&after, strict_sorted) {
                Some(("table-not-sorted".into(), show_tbl(&after.iter().take(6).cloned().collect())))
            } else if !neg_target_used && after.iter().any(|x| x.1 < 0) {
                Some(("negative-entry".into(), show_tbl(&after.iter().take(6).cloned().collect())))
            } else {
                None
            }
        });
        if let Some((kind, detail)) = viol {
            let path = write_replay("C14", &format!("{}-{}", cfg.seed, seq), &hdr(&line), &lines);
            rep.violations.push(Violation { kind, detail, replay: path });
            return;
        }
        if let Some(l) = lean.as_mut() {
            let m = l.ask(&line).unwrap();
            let m_norm = if m.starts_with("err ") {
                format!("err | {}", m.splitn(2, " | ").nth(1).unwrap_or(""))
            } else {
                m.clone()
            };
            if m_norm != impl_out {
                agree = false;
                let path = write_replay("C14", &format!("corr-{}-{}", cfg.seed, seq), &hdr(&line), &lines);
                let cut = |s: &str| s.chars().take(300).collect::<String>();
                rep.disagreements.push(Disagreement { seq, step: step as u64, op: line.clone(), impl_out: cut(&impl_out), model_out: cut(&m), replay: path });
                return;
            }
        }
    }
    if agree && lean.is_some() {
        rep.traces_validated += 1;
    }
    if nontrivial && seen.insert(hash_lines(&lines)) {
        rep.distinct_nontrivial += 1;
    }
    if rep.samples.len() < 2 && nontrivial {
        rep.samples.push(json!({"seq": seq, "level": "VestingFunds", "ops": lines.iter().take(10).collect::<Vec<_>>()}));
    }
}

/// `quantize_up` and `locked_reward_from_reward` against the model and against the statement
fn pointwise(cfg: &RunCfg, rep: &mut Report, lean: &mut Option<LeanDriver>) {
    let mut r = seq_rng(cfg.seed, 999_983);
    let n = if cfg.thorough() { 20_000 } else { 2_000 };
    for i in 0..n {
        let unit = if r.chance(1, 2) { 1440 } else { r.range(1, 3000) };
        let off = r.range(-10_000, 3_000_000);
        let e = if r.chance(1, 4) { off + unit * r.range(-3, 3) + r.range(-1, 1) } else { r.range(-10_000, 3_000_000) };
        let q = QuantSpec { unit, offset: off }.quantize_up(e);
        rep.op("quantize_up");
        rep.ops += 1;
        rep.ops_ok += 1;
        if q != spec_quantize_up(unit, off, e) {
            let path = write_replay("C14", &format!("{}-quant{}", cfg.seed, i), &[format!("property C14 seed {} seq 999983", cfg.seed)], &[format!("quant {} {} {}", unit, off, e)]);
            rep.violations.push(Violation { kind: "quantize-up-not-least-grid-point".into(), detail: format!("unit {} offset {} epoch {} -> {}", unit, off, e, q), replay: path });
            return;
        }
        let reward = if r.chance(1, 3) { r.range(0, 400) as i128 } else { (r.next() >> 4) as i128 * (r.range(1, 1_000_000) as i128) };
        let (lock, spec) = locked_reward_from_reward(tok(reward));
        rep.op("locked_reward");
        if atto_i128(&lock) != floor_div(reward * SPEC_LOCK_NUM, SPEC_LOCK_DEN)
            || spec.vest_period != SPEC_VEST_PERIOD || spec.step_duration != SPEC_STEP || spec.quantization != SPEC_QUANT || spec.initial_delay != 0
        {
            let path = write_replay("C14", &format!("{}-lock{}", cfg.seed, i), &[format!("property C14 seed {} seq 999983", cfg.seed)], &[format!("lockedreward {}", reward)]);
            rep.violations.push(Violation { kind: "locked-reward-not-75-percent-over-180-days".into(), detail: format!("reward {} -> locked {} spec ({},{},{},{})", reward, lock.atto(), spec.initial_delay, spec.vest_period, spec.step_duration, spec.quantization), replay: path });
            return;
        }
        if let Some(l) = lean.as_mut() {
            let m1 = l.ask(&format!("quant {} {} {}", unit, off, e)).unwrap();
            let m2 = l.ask(&format!("lockedreward {}", reward)).unwrap();
            if m1 != format!("ok {}", q) || m2 != format!("ok {}", lock.atto()) {
                rep.disagreements.push(Disagreement { seq: 999_983, step: i, op: format!("quant {} {} {} / lockedreward {}", unit, off, e, reward), impl_out: format!("{} / {}", q, lock.atto()), model_out: format!("{} / {}", m1, m2), replay: String::new() });
                return;
            }
        }
    }
}

// ---------------------------------------------------------------- (ii) actor level

struct Net {
    w: World,
    owner: Address,
    worker: Address,
    nominee: Address,
    stranger: Address,
    miner: Address,
    has_donor: bool,
}

fn create_miner(w: &World, owner: &Address, worker: &Address, value: &TokenAmount) -> Option<Address> {
    let params = CreateMinerParams {
        owner: *owner,
        worker: *worker,
        window_post_proof_type: RegisteredPoStProof::StackedDRGWindow32GiBV1P1,
        peer: b"miner".to_vec(),
        multiaddrs: vec![BytesDe(b"multiaddr".to_vec())],
    };
    let r = w.apply(owner, &STORAGE_POWER_ACTOR_ADDR, value, PowerMethod::CreateMiner as u64, Some(params));
    if !r.ok() {
        return None;
    }
    let ret: CreateMinerReturn = r.ret.unwrap().deserialize().unwrap();
    Some(ret.id_address)
}

fn setup_net(r: &mut Rng, start_epoch: i64) -> Net {
    let w = World::new(false);
    w.vm.set_epoch(start_epoch);
    let accts = w.create_accounts(5, 1400 + r.below(50), &TokenAmount::from_whole(20_000));
    let (owner, worker, nominee, stranger, donor_owner) = (accts[0].0, accts[1].0, accts[2].0, accts[3].0, accts[4].0);
    let value = TokenAmount::from_whole(r.range(40, 3000));
    let miner = create_miner(&w, &owner, &worker, &value).expect("CreateMiner");
    // F1 (DESIGN §8): the creation deposit is never added to power's total pledge, so every later
    // vesting step would drive it negative on an otherwise empty network.  Give the network other
    // pledge (a second miner reporting pledge) in most sequences; the rest keep the fresh network
    // and count the F1 failure signature as inconclusive.
    let has_donor = !r.chance(1, 5);
    if has_donor {
        let donor = create_miner(&w, &donor_owner, &donor_owner, &TokenAmount::from_whole(100)).expect("CreateMiner donor");
        let x = w.apply(&donor, &STORAGE_POWER_ACTOR_ADDR, &TokenAmount::zero(), PowerMethod::UpdatePledgeTotal as u64, Some(TokenAmount::from_whole(10_000_000)));
        assert!(x.ok(), "donor pledge: {:?}", x);
    }
    w.take_trace();
    Net { w, owner, worker, nominee, stranger, miner, has_donor }
}

#[derive(Clone, Debug)]
struct MinerView {
    owner: u64,
    beneficiary: u64,
    quota: i128,
    used: i128,
    expiration: i64,
    balance: i128,
    lf: i128,
    pcd: i128,
    ip: i128,
    debt: i128,
    et: bool,
    pps: i64,
    table: Tbl,
    raw: Option<((i64, i128), Tbl)>,
}

fn view(n: &Net) -> MinerView {
    let st: MinerState = get_state(&n.w.vm, &n.miner).unwrap();
    let store = n.w.vm.store.as_ref();
    let info = st.get_info(store).unwrap();
    MinerView {
        owner: info.owner.id().unwrap(),
        beneficiary: info.beneficiary.id().unwrap(),
        quota: atto_i128(&info.beneficiary_term.quota),
        used: atto_i128(&info.beneficiary_term.used_quota),
        expiration: info.beneficiary_term.expiration,
        balance: atto_i128(&n.w.balance(&n.miner)),
        lf: atto_i128(&st.locked_funds),
        pcd: atto_i128(&st.pre_commit_deposits),
        ip: atto_i128(&st.initial_pledge),
        debt: atto_i128(&st.fee_debt),
        et: !st.early_terminations.is_empty(),
        pps: st.proving_period_start,
        table: tbl_of(&st.vesting_funds.load(store).unwrap()),
        raw: raw_of(&st.vesting_funds, store),
    }
}

fn show_view(v: &MinerView) -> String {
    format!("{} {} {} {} {}", v.lf, v.debt, v.used, v.balance, show_tbl(&v.table))
}

fn mset_line(v: &MinerView) -> String {
    let (head, tail) = match &v.raw {
        None => ("-".to_string(), "-".to_string()),
        Some((h, t)) => (format!("{}:{}", h.0, h.1), show_tbl(t)),
    };
    format!(
        "mset {} {} {} {} {} {} {} {} {} {} {} {} {}",
        v.owner, v.beneficiary, v.quota, v.used, v.expiration, v.balance, v.lf, v.pcd, v.ip, v.debt, v.et as u8, head, tail
    )
}

/// exit code of the first direct sub-call of the last top-level message matching (to, method)
fn subcall(trace: &[vm_api::trace::InvocationTrace], to: &Address, method: u64) -> Option<(u32, TokenAmount)> {
    let top = trace.last()?;
    top.subinvocations.iter().find(|s| s.to == *to && s.method == method).map(|s| (s.exit_code.value(), s.value.clone()))
}

fn actor_sequence(cfg: &RunCfg, seq: u64, rep: &mut Report, lean: &mut Option<LeanDriver>, seen: &mut HashSet<u64>) {
    let mut r = seq_rng(cfg.seed, seq);
    let mut epoch: i64 = r.range(0, 6000);
    let n = setup_net(&mut r, epoch);
    let maxlen = if cfg.thorough() { 80 } else { 30 };
    let len = r.range(8, maxlen);
    let mut lines: Vec<String> = vec![format!("# actor-level: miner {} owner {} nominee {} stranger {} donor-pledge {}", n.miner, n.owner, n.nominee, n.stranger, n.has_donor), format!("# epoch {}", epoch)];
    let mut agree = true;
    let mut nontrivial = false;
    rep.sequences += 1;
    let party = |k: u64| match k { 0 => n.owner, 1 => n.nominee, 2 => n.worker, _ => n.stranger };
    // the creation deposit: 180 daily steps, linear
    {
        let v = view(&n);
        let sched = spec_schedule(epoch, v.lf, v.pps, 0, SPEC_VEST_PERIOD, SPEC_STEP, SPEC_QUANT);
        if v.lf <= 0 || tbl_map(&v.table) != tbl_map(&sched) || v.table.len() != 180 {
            let path = write_replay("C14", &format!("{}-{}", cfg.seed, seq), &[format!("property C14 seed {} seq {}", cfg.seed, seq), "creation deposit".into()], &lines);
            rep.violations.push(Violation { kind: "creation-deposit-not-linear-180-days".into(), detail: format!("locked {} entries {}", v.lf, v.table.len()), replay: path });
            return;
        }
    }
    for step in 0..len {
        let before = view(&n);
        let hdr = |what: &str| vec![
            format!("property C14 (miner actor) seed {} seq {} (re-run: ba_harness c14 --seed {} --only-seq {})", cfg.seed, seq, cfg.seed, seq),
            format!("failing step {}: {}", step, what),
        ];
        macro_rules! violation {
            ($kind:expr, $detail:expr, $what:expr) => {{
                let path = write_replay("C14", &format!("{}-{}", cfg.seed, seq), &hdr($what), &lines);
                rep.violations.push(Violation { kind: $kind.into(), detail: $detail, replay: path });
                return;
            }};
        }
        let k = r.below(100);
        if k < 22 {
            // ---- advance the clock: around the next vesting epochs / the term expiration
            let e = match r.below(5) {
                0 if !before.table.is_empty() => before.table[0].0 + r.range(-1, 2),
                1 if !before.table.is_empty() => before.table[r.below(before.table.len().min(12) as u64) as usize].0 + r.range(0, 2),
                2 if before.expiration > epoch => before.expiration + r.range(-1, 1),
                3 => epoch + r.range(1, 40) * 2880,
                _ => epoch + r.range(0, 3000),
            };
            epoch = e.max(epoch);
            n.w.vm.set_epoch(epoch);
            lines.push(format!("# epoch {}", epoch));
            rep.op("advance");
            continue;
        }
        if k < 30 {
            // ---- harness-planted collateral / pending early terminations (states that sector
            //      onboarding and terminations produce; planted directly to keep sequences short)
            let avail = before.balance - before.lf - before.pcd - before.ip;
            let what = match r.below(7) { 0 | 1 => 0, 2 | 3 => 1, 4 => 2, _ => 3 };
            let amt = if avail > 0 { (r.next() as i128).rem_euclid(avail / 2 + 1) } else { 0 };
            mutate_state(&n.w.vm, &n.miner, |st: &mut MinerState| match what {
                0 => st.pre_commit_deposits = tok(amt),
                1 => st.initial_pledge = tok(amt),
                2 => { let mut b = BitField::new(); b.set(r.below(48)); st.early_terminations = b; }
                _ => st.early_terminations = BitField::new(),
            });
            lines.push(format!("# plant {} {}", ["pre_commit_deposits", "initial_pledge", "early_terminations set", "early_terminations clear"][what as usize], amt));
            rep.op("plant");
            continue;
        }
        n.w.take_trace();
        let burnt_before = n.w.balance(&BURNT_FUNDS_ACTOR_ADDR);
        if k < 50 {
            // ---- ApplyRewards (from the reward actor), sometimes with a penalty that eats into vesting funds
            let reward: i128 = match r.below(6) {
                0 => 0,
                1 => r.range(1, 1000) as i128,
                _ => (r.range(1, 500) as i128) * 1_000_000_000_000_000_000i128 / (r.range(1, 50) as i128),
            };
            let penalty: i128 = match r.below(8) {
                0 => reward / 3,
                1 => before.balance - before.lf - before.pcd - before.ip + reward / 4 + (r.range(0, 10) as i128) * 1_000_000_000_000_000_000i128,
                2 => before.balance + reward + r.range(0, 5) as i128,
                _ => 0,
            }.max(0);
            let line = format!("applyrewards {} {} {}", epoch, reward, penalty);
            lines.push(line.clone());
            let res = n.w.apply(&REWARD_ACTOR_ADDR, &n.miner, &tok(reward), MinerMethod::ApplyRewards as u64, Some(ApplyRewardParams { reward: tok(reward), penalty: tok(penalty) }));
            let trace = n.w.take_trace();
            rep.ops += 1;
            rep.op("applyrewards");
            let after = view(&n);
            if res.panicked { violation!("panic", res.message.clone(), &line); }
            if !res.ok() {
                rep.err(&format!("applyrewards:{}", exit_class(res.code)));
                if let Some((20, _)) = subcall(&trace, &STORAGE_POWER_ACTOR_ADDR, PowerMethod::UpdatePledgeTotal as u64) {
                    Report::bump(&mut rep.branch_hist, "F1-signature(UpdatePledgeTotal exit 20): inconclusive for C14");
                }
                if show_view(&before) != show_view(&after) { violation!("failed-message-changed-state", format!("{} -> {}", show_view(&before), show_view(&after)), &line); }
                continue;
            }
            rep.ops_ok += 1;
            // oracle: 75 % of the reward is locked on the linear schedule; only vested funds leave the
            // table, except what pays the miner's own penalty (earliest first)
            let lock = floor_div(reward * SPEC_LOCK_NUM, SPEC_LOCK_DEN);
            let mut expect = before.table.clone();
            expect.extend(spec_schedule(epoch, lock, before.pps, 0, SPEC_VEST_PERIOD, SPEC_STEP, SPEC_QUANT));
            let mut expect = unvested(&expect, epoch);
            let debt_total = before.debt + penalty;
            let lf_mid = before.lf - vested_sum(&before.table, epoch) + lock;
            let mut forced = 0i128;
            if debt_total != 0 && lf_mid != 0 {
                forced = debt_total.min(tbl_sum(&expect));
                expect = spec_consume(&expect, debt_total);
            }
            let burnt = atto_i128(&(n.w.balance(&BURNT_FUNDS_ACTOR_ADDR) - &burnt_before));
            if tbl_map(&after.table) != tbl_map(&expect) {
                violation!("reward-schedule-or-penalty-draw-wrong", format!("reward {} penalty {} at {}: locked_funds {} -> {} (expected {}), table head {} -> {}", reward, penalty, epoch, before.lf, after.lf, lf_mid - forced, show_tbl(&before.table.iter().take(3).cloned().collect()), show_tbl(&after.table.iter().take(3).cloned().collect())), &line);
            }
            if after.lf != tbl_sum(&after.table) { violation!("locked-funds-memo-differs-from-table", format!("locked_funds {} Σtable {}", after.lf, tbl_sum(&after.table)), &line); }
            if after.debt + burnt != debt_total { violation!("penalty-not-accounted", format!("debt {} + penalty {} ≠ debt' {} + burnt {}", before.debt, penalty, after.debt, burnt), &line); }
            if after.balance < after.lf + after.pcd + after.ip { violation!("balance-below-collateral", show_view(&after), &line); }
            if lock > 0 || forced > 0 { nontrivial = true; }
            continue;
        }
        if k < 64 {
            // ---- ChangeBeneficiary: owner proposes, nominee and (when still effective) the current beneficiary confirm
            let to_owner = r.chance(1, 5);
            let newb = if to_owner { n.owner } else { n.nominee };
            let avail = (before.balance - before.lf - before.pcd - before.ip - before.debt).max(1);
            let quota: i128 = if to_owner { 0 } else { match r.below(4) { 0 => 1, 1 => avail / 3 + 1, 2 => avail + 5, _ => (r.next() as i128).rem_euclid(avail) + 1 } };
            let exp: i64 = if to_owner { 0 } else { match r.below(4) { 0 => epoch + 1, 1 => epoch, 2 => epoch + r.range(1, 30) * 2880, _ => epoch + r.range(2, 5000) } };
            let p = || Some(ChangeBeneficiaryParams { new_beneficiary: newb, new_quota: tok(quota), new_expiration: exp });
            let mut oks = 0;
            for who in [n.owner, n.nominee, Address::new_id(before.beneficiary)] {
                let x = n.w.apply(&who, &n.miner, &TokenAmount::zero(), MinerMethod::ChangeBeneficiary as u64, p());
                if x.panicked { violation!("panic", x.message.clone(), "changebeneficiary"); }
                if x.ok() { oks += 1; }
                rep.ops += 1;
            }
            rep.ops_ok += oks;
            lines.push(format!("changebeneficiary {} {} {}  # {} of 3 calls accepted", newb.id().unwrap(), quota, exp, oks));
            rep.op("changebeneficiary");
            let after = view(&n);
            if after.lf != before.lf || after.table != before.table || after.balance != before.balance {
                violation!("beneficiary-change-moved-funds", format!("{} -> {}", show_view(&before), show_view(&after)), "changebeneficiary");
            }
            continue;
        }
        // ---- WithdrawBalance
        // (pending early terminations block every withdrawal: keep most attempts unblocked)
        let before = if before.et && r.chance(2, 3) {
            mutate_state(&n.w.vm, &n.miner, |st: &mut MinerState| st.early_terminations = BitField::new());
            lines.push("# plant early_terminations clear 0".into());
            view(&n)
        } else {
            before
        };
        let avail_now = {
            let vested = if before.lf != 0 { vested_sum(&before.table, epoch) } else { 0 };
            before.balance - (before.lf - vested) - before.pcd - before.ip - before.debt
        };
        let clean = r.chance(1, 2);
        let caller_k = if clean { if r.chance(1, 2) { 0 } else { 4 } } else { r.below(5) };
        let caller = if caller_k == 4 { Address::new_id(before.beneficiary) } else { party(caller_k) };
        let remaining = if before.expiration > epoch { (before.quota - before.used).max(0) } else { 0 };
        let req: i128 = match if clean { 4 + r.below(4) } else { r.below(8) } {
            0 => -(r.range(1, 9) as i128),
            1 => avail_now + 1,
            2 => avail_now,
            3 => remaining + r.range(-1, 1) as i128,
            4 => 0,
            5 => avail_now.max(0) / 2,
            6 => before.balance,
            _ => if avail_now > 0 { (r.next() as i128).rem_euclid(avail_now) } else { 1 },
        };
        let value: i128 = if r.chance(1, 10) { r.range(1, 1000) as i128 } else { 0 };
        let bal_before: Vec<TokenAmount> = [n.owner, n.nominee, n.worker, n.stranger].iter().map(|a| n.w.balance(a)).collect();
        let res = n.w.apply(&caller, &n.miner, &tok(value), MinerMethod::WithdrawBalance as u64, Some(WithdrawBalanceParams { amount_requested: tok(req) }));
        let trace = n.w.take_trace();
        let after = view(&n);
        rep.ops += 1;
        rep.op("withdraw");
        let notify = subcall(&trace, &STORAGE_POWER_ACTOR_ADDR, PowerMethod::UpdatePledgeTotal as u64);
        let send = subcall(&trace, &Address::new_id(before.beneficiary), METHOD_SEND);
        let notify_ok = notify.as_ref().map(|x| x.0 == 0).unwrap_or(true);
        let send_ok = send.as_ref().map(|x| x.0 == 0).unwrap_or(true);
        let caller_id = caller.id().unwrap();
        let line = format!("withdraw {} {} {} {} {} {}", caller_id, epoch, value, req, send_ok as u8, notify_ok as u8);
        lines.push(mset_line(&before));
        lines.push(line.clone());
        if res.panicked { violation!("panic", res.message.clone(), &line); }
        let f1 = !res.ok() && res.code.value() == 20 && matches!(notify, Some((20, _)));
        if f1 {
            // known finding F1 (C03): power's total pledge would go negative; not a C14 verdict
            Report::bump(&mut rep.branch_hist, "F1-signature(UpdatePledgeTotal exit 20): inconclusive for C14");
        }
        let deltas: Vec<i128> = [n.owner, n.nominee, n.worker, n.stranger].iter().zip(bal_before.iter()).map(|(a, b)| atto_i128(&(n.w.balance(a) - b))).collect();
        let ids: Vec<u64> = [n.owner, n.nominee, n.worker, n.stranger].iter().map(|a| a.id().unwrap()).collect();
        let burnt = atto_i128(&(n.w.balance(&BURNT_FUNDS_ACTOR_ADDR) - &burnt_before));
        let mut impl_out;
        if !res.ok() {
            rep.err(&format!("withdraw:{}", exit_class(res.code)));
            if show_view(&before) != show_view(&after) || deltas.iter().any(|d| *d != 0) {
                violation!("failed-message-changed-state", format!("{} -> {} deltas {:?}", show_view(&before), show_view(&after), deltas), &line);
            }
            impl_out = format!("err | {}", show_view(&after));
        } else {
            rep.ops_ok += 1;
            let ret: WithdrawBalanceReturn = res.ret.clone().unwrap().deserialize().unwrap();
            let amount = atto_i128(&ret.amount_withdrawn);
            // ---- oracle (the statement, on the real balances)
            if caller_id != before.owner && caller_id != before.beneficiary { violation!("withdraw-by-outsider", format!("caller {} owner {} beneficiary {}", caller_id, before.owner, before.beneficiary), &line); }
            if before.et { violation!("withdraw-while-early-terminations-pending", String::new(), &line); }
            if req < 0 || amount < 0 || amount > req { violation!("withdraw-more-than-requested", format!("requested {} got {}", req, amount), &line); }
            let avail = avail_now + value;
            if amount > avail { violation!("withdraw-exceeds-available", format!("sent {} but balance {} − locked(after vesting at {}) {} − pcd {} − ip {} − debt {} = {}", amount, before.balance + value, epoch, before.lf - if before.lf != 0 { vested_sum(&before.table, epoch) } else { 0 }, before.pcd, before.ip, before.debt, avail), &line); }
            if before.beneficiary != before.owner {
                if before.expiration <= epoch { violation!("withdraw-after-beneficiary-expiry", format!("expiration {} epoch {}", before.expiration, epoch), &line); }
                if amount > before.quota - before.used { violation!("withdraw-exceeds-beneficiary-quota", format!("sent {} quota {} used {}", amount, before.quota, before.used), &line); }
                if after.used != before.used + amount { violation!("used-quota-not-updated", format!("used {} -> {} amount {}", before.used, after.used, amount), &line); }
            }
            // who received what: only the beneficiary, exactly `amount` (the caller paid `value`)
            for (i, id) in ids.iter().enumerate() {
                let mut expect = 0i128;
                if *id == before.beneficiary { expect += amount; }
                if *id == caller_id { expect -= value; }
                if deltas[i] != expect { violation!("withdrawal-sent-elsewhere", format!("actor {} balance changed by {} expected {} (beneficiary {}, amount {})", id, deltas[i], expect, before.beneficiary, amount), &line); }
            }
            if after.debt != 0 || burnt != before.debt { violation!("fee-debt-not-repaid-in-full", format!("debt {} -> {} burnt {}", before.debt, after.debt, burnt), &line); }
            if after.balance != before.balance + value - amount - before.debt { violation!("miner-balance-delta-wrong", format!("{} -> {}", before.balance, after.balance), &line); }
            if after.balance < after.lf + after.pcd + after.ip { violation!("balance-below-collateral", show_view(&after), &line); }
            // vesting: nothing with epoch >= now left the table
            let exp_table = if before.lf != 0 { unvested(&before.table, epoch) } else { before.table.clone() };
            if tbl_map(&after.table) != tbl_map(&exp_table) || after.lf != tbl_sum(&after.table) {
                violation!("early-unlock-or-lost-entry", format!("at {}: locked {} -> {} table {} -> {}", epoch, before.lf, after.lf, show_tbl(&before.table.iter().take(3).cloned().collect()), show_tbl(&after.table.iter().take(3).cloned().collect())), &line);
            }
            if after.pcd != before.pcd || after.ip != before.ip { violation!("withdraw-touched-collateral", String::new(), &line); }
            if amount > 0 || burnt > 0 { nontrivial = true; }
            let sent_to = if amount > 0 { trace.last().and_then(|t| t.subinvocations.iter().find(|s| s.method == METHOD_SEND && s.value == ret.amount_withdrawn && s.to != BURNT_FUNDS_ACTOR_ADDR).map(|s| s.to.id().unwrap())).unwrap_or(0) } else { before.beneficiary };
            impl_out = format!("ok {} {} {} {} | {}", amount, sent_to, burnt, before.lf - after.lf, show_view(&after));
        }
        if let Some(l) = lean.as_mut() {
            l.ask(&mset_line(&before)).unwrap();
            let m = l.ask(&line).unwrap();
            let m_norm = if m.starts_with("err ") { format!("err | {}", m.splitn(2, " | ").nth(1).unwrap_or("")) } else { m.clone() };
            if m_norm != impl_out {
                agree = false;
                let path = write_replay("C14", &format!("corr-{}-{}", cfg.seed, seq), &hdr(&line), &lines);
                impl_out.truncate(300);
                rep.disagreements.push(Disagreement { seq, step: step as u64, op: line.clone(), impl_out, model_out: m.chars().take(300).collect(), replay: path });
                return;
            }
        }
    }
    if agree && lean.is_some() { rep.traces_validated += 1; }
    if nontrivial && seen.insert(hash_lines(&lines)) { rep.distinct_nontrivial += 1; }
    if rep.samples.len() < 4 && nontrivial {
        rep.samples.push(json!({"seq": seq, "level": "miner actor", "ops": lines.iter().filter(|l| !l.starts_with("mset")).take(10).map(|l| l.chars().take(160).collect::<String>()).collect::<Vec<_>>()}));
    }
}

/// sequences `0 .. n_ds` drive `VestingFunds`, sequences `ACTOR_BASE ..` drive the miner actor
const ACTOR_BASE: u64 = 1_000_000;

pub fn run(cfg: &RunCfg) -> Report {
    let mut rep = Report::new("C14", cfg.seed, &cfg.tier);
    rep.nontrivial_rule = "a sequence is non-trivial when funds were locked and later some amount left the table (vested unlock, forced unlock) or a withdrawal/burn moved tokens; distinct = distinct hash of the op lines".into();
    let (n_ds, n_actor) = if cfg.thorough() { (6000u64, 600u64) } else { (600, 60) };
    let (n_ds, n_actor) = (n_ds * cfg.budget, n_actor * cfg.budget);
    let mut lean = if cfg.use_lean { Some(LeanDriver::spawn("vesting").expect("lean driver")) } else { None };
    let mut seen = HashSet::new();
    match cfg.only_seq {
        Some(999_983) => pointwise(cfg, &mut rep, &mut lean),
        Some(k) if k >= ACTOR_BASE => actor_sequence(cfg, k, &mut rep, &mut lean, &mut seen),
        Some(k) => ds_sequence(cfg, k, &mut rep, &mut lean, &mut seen),
        None => {
            pointwise(cfg, &mut rep, &mut lean);
            for seq in 0..n_ds {
                ds_sequence(cfg, seq, &mut rep, &mut lean, &mut seen);
            }
            for seq in 0..n_actor {
                actor_sequence(cfg, ACTOR_BASE + seq, &mut rep, &mut lean, &mut seen);
            }
        }
    }
    let f1 = rep.branch_hist.get("F1-signature(UpdatePledgeTotal exit 20): inconclusive for C14").cloned().unwrap_or(0);
    if f1 > 0 {
        rep.notes.push(format!("{} message(s) on a network without other pledge failed with exit 20 from the nested UpdatePledgeTotal (known finding F1, attributed to C03): counted as inconclusive for C14, the model is told the notification failed and must agree on the abort", f1));
    }
    rep.notes.push("actor level: pre_commit_deposits / initial_pledge / early_terminations are planted with mutate_state (sector onboarding is out of scope here); the power actor gets other pledge from a second miner in 4 of 5 sequences so that F1 does not mask withdrawals".into());
    rep
}
