//! C02 (power-actor half) — claims/totals under the consensus-minimum rule: real power actor in the
//! vvm ⇄ Lean `BA.Power` model + independent oracle computed from the claims table only.
//!
//! Messages driven: CreateMiner (plain message to the power actor, with and without the creation
//! deposit), UpdateClaimedPower from a miner's id address / a miner whose claim was deleted / a
//! non-miner, EnrollCronEvent + OnEpochTickEnd (a miner whose deferred cron callback fails loses
//! its claim: the only caller of `delete_claim`), MinerRawPower queries.
use super::{RunCfg, hash_lines, seq_rng};
use crate::lean::LeanDriver;
use crate::report::{Disagreement, Report, Violation, write_replay};
use crate::rng::Rng;
use crate::world::{World, exit_class};
use fil_actor_miner::{CRON_EVENT_PROVING_DEADLINE, CronEventPayload};
use fil_actor_power::{
    CONSENSUS_MINER_MIN_MINERS, CreateMinerParams, CreateMinerReturn, EnrollCronEventParams,
    Method, MinerRawPowerParams, MinerRawPowerReturn, State, UpdateClaimedPowerParams,
};
use fil_actors_integration_tests::util::create_miner_deposit_for_test;
use fil_actors_runtime::runtime::Policy;
use fil_actors_runtime::{CRON_ACTOR_ADDR, STORAGE_POWER_ACTOR_ADDR};
use fvm_ipld_encoding::{BytesDe, RawBytes};
use fvm_shared::address::Address;
use fvm_shared::bigint::BigInt;
use fvm_shared::econ::TokenAmount;
use fvm_shared::sector::RegisteredPoStProof;
use num_traits::{Signed, Zero};
use serde_json::json;
use std::collections::{BTreeMap, HashSet};
use vm_api::VM;

/// sequence numbers of this sub-run are reported offset by this (the C02 run merges several)
pub const SEQ_OFFSET: u64 = 1_000_000;
/// the property's literal: totals switch to consensus miners once 4 of them reached the minimum
const SPEC_MIN_MINERS: i64 = 4;

#[derive(Clone, Debug, Default, PartialEq)]
struct Proj {
    total_raw: BigInt,
    total_qa: BigInt,
    committed_raw: BigInt,
    committed_qa: BigInt,
    miner_count: i64,
    above_min: i64,
    cur: (BigInt, BigInt),
    epoch_raw: BigInt,
    epoch_qa: BigInt,
    claims: BTreeMap<u64, (BigInt, BigInt)>,
}

fn project(w: &World) -> Proj {
    let st: State = vm_api::util::get_state(&w.vm, &STORAGE_POWER_ACTOR_ADDR).unwrap();
    let claims_map = st.load_claims(w.vm.store.as_ref()).unwrap();
    let mut claims = BTreeMap::new();
    claims_map
        .for_each(|k: Address, c| {
            claims.insert(k.id().unwrap(), (c.raw_byte_power.clone(), c.quality_adj_power.clone()));
            Ok(())
        })
        .unwrap();
    Proj {
        cur: st.current_total_power(),
        total_raw: st.total_raw_byte_power,
        total_qa: st.total_quality_adj_power,
        committed_raw: st.total_bytes_committed,
        committed_qa: st.total_qa_bytes_committed,
        miner_count: st.miner_count,
        above_min: st.miner_above_min_power_count,
        epoch_raw: st.this_epoch_raw_byte_power,
        epoch_qa: st.this_epoch_quality_adj_power,
        claims,
    }
}

fn show(p: &Proj) -> String {
    let claims: Vec<String> =
        p.claims.iter().map(|(k, (r, q))| format!("{}:{}:{}", k, r, q)).collect();
    format!(
        "{} {} {} {} {} {} {} {} {} {} {}",
        p.total_raw,
        p.total_qa,
        p.committed_raw,
        p.committed_qa,
        p.miner_count,
        p.above_min,
        p.cur.0,
        p.cur.1,
        p.epoch_raw,
        p.epoch_qa,
        if claims.is_empty() { "-".to_string() } else { claims.join(",") }
    )
}

/// what the property says the totals must be, computed from the claims table alone
struct Expect {
    sum_raw: BigInt,
    sum_qa: BigInt,
    sum_raw_above: BigInt,
    sum_qa_above: BigInt,
    n_above: i64,
    rule: (BigInt, BigInt),
}

fn expect(p: &Proj, min: &BigInt) -> Expect {
    let mut e = Expect {
        sum_raw: BigInt::zero(),
        sum_qa: BigInt::zero(),
        sum_raw_above: BigInt::zero(),
        sum_qa_above: BigInt::zero(),
        n_above: 0,
        rule: (BigInt::zero(), BigInt::zero()),
    };
    for (r, q) in p.claims.values() {
        e.sum_raw += r;
        e.sum_qa += q;
        if r >= min {
            e.sum_raw_above += r;
            e.sum_qa_above += q;
            e.n_above += 1;
        }
    }
    e.rule = if e.n_above < SPEC_MIN_MINERS {
        (e.sum_raw.clone(), e.sum_qa.clone())
    } else {
        (e.sum_raw_above.clone(), e.sum_qa_above.clone())
    };
    e
}

/// state-only part of the oracle (holds after every message, successful or not)
fn oracle_state(p: &Proj, min: &BigInt, check_miner_count: bool) -> Option<(String, String)> {
    for (k, (r, q)) in p.claims.iter() {
        if r.is_negative() || q.is_negative() {
            return Some(("negative-claim".into(), format!("miner {} claim {}/{}", k, r, q)));
        }
    }
    let e = expect(p, min);
    if p.committed_raw != e.sum_raw {
        return Some(("power-total-committed-mismatch".into(), format!("total_bytes_committed={} Σraw={}", p.committed_raw, e.sum_raw)));
    }
    if p.committed_qa != e.sum_qa {
        return Some(("power-total-qa-committed-mismatch".into(), format!("total_qa_bytes_committed={} Σqa={}", p.committed_qa, e.sum_qa)));
    }
    if p.total_raw != e.sum_raw_above {
        return Some(("power-total-raw-mismatch".into(), format!("total_raw_byte_power={} Σraw(raw≥min)={}", p.total_raw, e.sum_raw_above)));
    }
    if p.total_qa != e.sum_qa_above {
        return Some(("power-total-qa-mismatch".into(), format!("total_quality_adj_power={} Σqa(raw≥min)={}", p.total_qa, e.sum_qa_above)));
    }
    if p.above_min != e.n_above {
        return Some(("power-above-min-count-mismatch".into(), format!("miner_above_min_power_count={} #claims(raw≥min)={}", p.above_min, e.n_above)));
    }
    if p.cur != e.rule {
        return Some(("power-current-total-mismatch".into(), format!("current_total_power=({},{}) rule=({},{}) n_above={}", p.cur.0, p.cur.1, e.rule.0, e.rule.1, e.n_above)));
    }
    if check_miner_count && p.miner_count != p.claims.len() as i64 {
        return Some(("power-miner-count-mismatch".into(), format!("miner_count={} #claims={}", p.miner_count, p.claims.len())));
    }
    None
}

#[derive(Clone, Debug)]
enum Op {
    /// CreateMiner; `deposit = false` sends no value (the miner constructor refuses)
    Create { deposit: bool },
    /// UpdateClaimedPower from miner #idx (an actor of type Miner, with or without a claim)
    Update { idx: usize, dr: BigInt, dq: BigInt },
    /// UpdateClaimedPower from an account actor
    UpdateX { dr: BigInt, dq: BigInt },
    /// a cron tick in which the callbacks of `failed` fail (unparsable payload) and those of
    /// `fine` succeed
    Tick { failed: Vec<usize>, fine: Vec<usize> },
    /// MinerRawPower query
    Meets { id: u64 },
}

struct Env {
    w: World,
    owner: Address,
    worker: Address,
    stranger: Address,
    /// id addresses of every miner actor created so far (claims may have been deleted since)
    miners: Vec<Address>,
    epoch: i64,
}

fn big(n: i64) -> BigInt {
    BigInt::from(n)
}

fn gen_delta(r: &mut Rng, clean: bool, cur: &(BigInt, BigInt), min: &BigInt, want_up: Option<bool>) -> (BigInt, BigInt) {
    let (raw, qa) = cur;
    // target raw power, mostly around the consensus minimum
    let k = match want_up {
        Some(true) => r.below(4),      // to min, min+1, well above, far above
        Some(false) => 4 + r.below(3), // to min-1, to zero, to a small value
        None => if clean { r.below(11) } else { 11 + r.below(3) },
    };
    let dr: BigInt = match k {
        0 => min - raw,
        1 => min + 1 - raw,
        2 => min + big(r.range(2, 1 << 20)) - raw,
        3 => (min * big(r.range(2, 1000))) + big(r.range(0, 1 << 40)) - raw,
        4 => min - 1 - raw,
        5 => -raw.clone(),
        6 => big(r.range(0, 1 << 35)) - raw,
        7 => BigInt::zero(),
        8 => big(r.range(1, 1 << 34)),
        9 => if raw.is_positive() { -big(1) } else { big(1) },
        10 => big(1),
        11 => -raw.clone() - 1, // negative by one: rejected
        12 => -raw.clone() - big(r.range(2, 1 << 40)),
        _ => -(min.clone()) - raw,
    };
    let new_raw = raw + &dr;
    let q = if clean { r.below(7) } else { r.below(10) };
    let dq: BigInt = match q {
        0 => BigInt::zero(),
        1 => dr.clone(),
        2 => &dr * 10,
        3 => &new_raw * big(r.range(1, 10)) - qa, // qa becomes a multiple of raw
        4 => -qa.clone(),                          // qa to zero
        5 => big(r.range(0, 1 << 40)),
        6 => if qa.is_positive() { -big(1) } else { big(1) },
        7 => -qa.clone() - 1,                      // negative by one: rejected
        8 => -qa.clone() - big(r.range(2, 1 << 40)),
        _ => -(min.clone()) * 3,
    };
    (dr, dq)
}

fn gen_op(r: &mut Rng, env: &Env, p: &Proj, min: &BigInt) -> Op {
    let k = r.below(100);
    let n = env.miners.len();
    if n == 0 || (k < 4 && n < 7) {
        return Op::Create { deposit: n == 0 || r.chance(4, 5) };
    }
    if k < 8 {
        return Op::UpdateX { dr: big(r.range(-5, 1 << 30)), dq: big(r.range(-5, 1 << 30)) };
    }
    if k < 14 {
        let id = if r.chance(4, 5) { env.miners[r.below(n as u64) as usize].id().unwrap() } else { env.stranger.id().unwrap() + r.below(3) };
        return Op::Meets { id };
    }
    if k < 20 {
        // cron tick: mostly nobody fails; sometimes one or two miners, rarely one miner twice
        let mut failed = vec![];
        let mut fine = vec![];
        match r.below(20) {
            0..=10 => {}
            11..=14 => failed.push(r.below(n as u64) as usize),
            15 => {
                failed.push(r.below(n as u64) as usize);
                failed.push(r.below(n as u64) as usize);
            }
            16 => {
                let m = r.below(n as u64) as usize;
                failed.push(m);
                failed.push(m);
            }
            _ => fine.push(r.below(n as u64) as usize),
        }
        if r.chance(1, 3) {
            let m = r.below(n as u64) as usize;
            if !failed.contains(&m) { fine.push(m); }
        }
        return Op::Tick { failed, fine };
    }
    // UpdateClaimedPower from a miner
    let with_claim: Vec<usize> = (0..n).filter(|i| p.claims.contains_key(&env.miners[*i].id().unwrap())).collect();
    let idx = if !with_claim.is_empty() && r.chance(14, 15) { *r.pick(&with_claim) } else { r.below(n as u64) as usize };
    let id = env.miners[idx].id().unwrap();
    let zero = (BigInt::zero(), BigInt::zero());
    let cur = p.claims.get(&id).unwrap_or(&zero);
    let clean = r.chance(3, 4);
    // steer the number of miners at the minimum across CONSENSUS_MINER_MIN_MINERS both ways
    let is_above = &cur.0 >= min;
    let want_up = if clean && r.chance(1, 2) {
        if p.above_min <= SPEC_MIN_MINERS && !is_above { Some(true) }
        else if p.above_min >= SPEC_MIN_MINERS && is_above && r.chance(1, 2) { Some(false) }
        else { None }
    } else { None };
    let (dr, dq) = gen_delta(r, clean, cur, min, want_up);
    Op::Update { idx, dr, dq }
}

fn create_params(env: &Env) -> CreateMinerParams {
    CreateMinerParams {
        owner: env.owner,
        worker: env.worker,
        window_post_proof_type: RegisteredPoStProof::StackedDRGWindow32GiBV1P1,
        peer: b"miner".to_vec(),
        multiaddrs: vec![BytesDe(b"multiaddr".to_vec())],
    }
}

struct Ctx<'a> {
    cfg: &'a RunCfg,
    seq: u64,
    lines: Vec<String>,
}

impl Ctx<'_> {
    fn header(&self, step: u64, what: &str) -> Vec<String> {
        vec![
            format!(
                "property C02 (power actor claims/totals) seed {} seq {} (re-run: ba_harness c02power --seed {} --only-seq {})",
                self.cfg.seed, SEQ_OFFSET + self.seq, self.cfg.seed, SEQ_OFFSET + self.seq
            ),
            format!("failing step {}: {}", step, what),
            "lines: init <minPower> <minMiners> | create <id> | createfail | update <id> <rawDelta> <qaDelta> | updatex <id> … (non-miner caller) | tick <failed ids> | meets <id>".into(),
        ]
    }
    fn violation(&self, rep: &mut Report, step: u64, what: &str, kind: String, detail: String) {
        let path = write_replay("C02", &format!("{}-p{}", self.cfg.seed, self.seq), &self.header(step, what), &self.lines);
        rep.violations.push(Violation { kind, detail, replay: path });
    }
    fn disagreement(&self, rep: &mut Report, step: u64, what: &str, op: &str, impl_out: String, model_out: String) {
        let path = write_replay("C02", &format!("corr-{}-p{}", self.cfg.seed, self.seq), &self.header(step, what), &self.lines);
        rep.disagreements.push(Disagreement { seq: SEQ_OFFSET + self.seq, step, op: op.into(), impl_out, model_out, replay: path });
    }
}

/// normalise a model answer: the error class is informational
fn norm(m: &str) -> String {
    if m.starts_with("err ") {
        format!("err | {}", m.splitn(2, " | ").nth(1).unwrap_or(""))
    } else {
        m.to_string()
    }
}

/// run the power-actor sequences and merge the results into `rep`
pub fn run_into(cfg: &RunCfg, rep: &mut Report) {
    let rule = "power: a sequence is non-trivial when at least one miner's claim crossed the consensus minimum (raw ≥ min ↔ raw < min) in a successful message; distinct = distinct hash of the op lines";
    if rep.nontrivial_rule.is_empty() {
        rep.nontrivial_rule = rule.into();
    } else if !rep.nontrivial_rule.contains("power:") {
        rep.nontrivial_rule = format!("{}; {}", rep.nontrivial_rule, rule);
    }
    let policy = Policy::default(); // what the vvm's InvocationCtx uses
    let min: BigInt = policy.minimum_consensus_power.clone();
    let (nseq, minlen, maxlen) = if cfg.thorough() { (1500u64, 40i64, 250i64) } else { (150, 20, 60) };
    let nseq = nseq * cfg.budget;
    let mut lean = if cfg.use_lean { Some(LeanDriver::spawn("power").expect("lean driver")) } else { None };
    let mut seen = HashSet::new();
    // `--only-seq` takes the offset number of the replay header (the plain one works too)
    let seqs: Vec<u64> = match cfg.only_seq { Some(k) => vec![k % SEQ_OFFSET], None => (0..nseq).collect() };
    let mut samples = 0;
    'seqs: for seq in seqs {
        let mut r = seq_rng(cfg.seed, SEQ_OFFSET + seq);
        let w = World::new(false);
        let accts = w.create_accounts(3, 7000 + seq, &TokenAmount::from_whole(1_000_000));
        let mut env = Env { w, owner: accts[0].0, worker: accts[1].0, stranger: accts[2].0, miners: vec![], epoch: r.range(0, 5) };
        env.w.vm.set_epoch(env.epoch);
        let mut cx = Ctx { cfg, seq, lines: vec![] };
        let init_line = format!("init {} {}", min, CONSENSUS_MINER_MIN_MINERS);
        cx.lines.push(init_line.clone());
        rep.sequences += 1;
        let p0 = project(&env.w);
        if let Some(l) = lean.as_mut() {
            let m = l.ask(&init_line).unwrap();
            let i = format!("ok | {}", show(&p0));
            if m != i {
                cx.disagreement(rep, 0, "init", &init_line, i, m);
                continue 'seqs;
            }
        }
        let n_initial = r.range(1, 6) as usize;
        let len = r.range(minlen, maxlen) as u64;
        let mut nontrivial = false;
        let mut dup_delete_used = false;
        let mut step: u64 = 0;
        while step < len {
            step += 1;
            let before = project(&env.w);
            let op = if env.miners.len() < n_initial && step as usize <= n_initial {
                Op::Create { deposit: true }
            } else {
                gen_op(&mut r, &env, &before, &min)
            };
            let what = format!("{:?}", op);
            // ---- execute on the real actors ----
            let (line, ok, code, panicked, extra_out): (String, bool, String, Option<String>, String) = match &op {
                Op::Create { deposit } => {
                    let value = if *deposit { create_miner_deposit_for_test(&env.w.vm) } else { TokenAmount::zero() };
                    let res = env.w.apply(&env.owner, &STORAGE_POWER_ACTOR_ADDR, &value, Method::CreateMiner as u64, Some(create_params(&env)));
                    let mut line = "createfail".to_string();
                    if res.ok() {
                        let ret: CreateMinerReturn = res.ret.clone().unwrap().deserialize().unwrap();
                        env.miners.push(ret.id_address);
                        line = format!("create {}", ret.id_address.id().unwrap());
                    }
                    (line, res.ok(), exit_class(res.code).to_string(), if res.panicked { Some(res.message.clone()) } else { None }, String::new())
                }
                Op::Update { idx, dr, dq } => {
                    let from = env.miners[*idx];
                    let params = UpdateClaimedPowerParams { raw_byte_delta: dr.clone(), quality_adjusted_delta: dq.clone() };
                    let res = env.w.apply(&from, &STORAGE_POWER_ACTOR_ADDR, &TokenAmount::zero(), Method::UpdateClaimedPower as u64, Some(params));
                    (format!("update {} {} {}", from.id().unwrap(), dr, dq), res.ok(), exit_class(res.code).to_string(), if res.panicked { Some(res.message.clone()) } else { None }, String::new())
                }
                Op::UpdateX { dr, dq } => {
                    let params = UpdateClaimedPowerParams { raw_byte_delta: dr.clone(), quality_adjusted_delta: dq.clone() };
                    let res = env.w.apply(&env.stranger, &STORAGE_POWER_ACTOR_ADDR, &TokenAmount::zero(), Method::UpdateClaimedPower as u64, Some(params));
                    (format!("updatex {} {} {}", env.stranger.id().unwrap(), dr, dq), res.ok(), exit_class(res.code).to_string(), if res.panicked { Some(res.message.clone()) } else { None }, String::new())
                }
                Op::Meets { id } => {
                    let res = env.w.apply(&env.stranger, &STORAGE_POWER_ACTOR_ADDR, &TokenAmount::zero(), Method::MinerRawPowerExported as u64, Some(MinerRawPowerParams { miner: *id }));
                    let mut out = String::new();
                    if res.ok() {
                        let ret: MinerRawPowerReturn = res.ret.clone().unwrap().deserialize().unwrap();
                        out = format!(" {} {}", ret.raw_byte_power, ret.meets_consensus_minimum as u8);
                    }
                    (format!("meets {}", id), res.ok(), exit_class(res.code).to_string(), if res.panicked { Some(res.message.clone()) } else { None }, out)
                }
                Op::Tick { failed, fine } => {
                    // the miners enroll their events (messages to the power actor that must not
                    // touch claims or totals) …
                    let mut enrolled_failed = vec![];
                    for (list, good) in [(failed, false), (fine, true)] {
                        for idx in list.iter() {
                            let from = env.miners[*idx];
                            let payload = if good {
                                RawBytes::serialize(CronEventPayload { event_type: CRON_EVENT_PROVING_DEADLINE }).unwrap()
                            } else {
                                RawBytes::new(vec![0xff, 0x00, 0x13])
                            };
                            let res = env.w.apply(&from, &STORAGE_POWER_ACTOR_ADDR, &TokenAmount::zero(), Method::EnrollCronEvent as u64,
                                Some(EnrollCronEventParams { event_epoch: env.epoch, payload }));
                            rep.ops += 1;
                            rep.op("enroll");
                            cx.lines.push(format!("# enroll {} {}", from.id().unwrap(), if good { "valid-payload" } else { "garbage-payload" }));
                            if res.ok() { rep.ops_ok += 1; } else { rep.err(&format!("enroll:{}", exit_class(res.code))); }
                            if res.panicked {
                                cx.violation(rep, step, &what, "panic".into(), res.message.clone());
                                continue 'seqs;
                            }
                            let pe = project(&env.w);
                            if pe != before {
                                cx.violation(rep, step, &what, "enroll-changed-power-state".into(), format!("{} -> {}", show(&before), show(&pe)));
                                continue 'seqs;
                            }
                            if res.ok() && !good { enrolled_failed.push(from.id().unwrap()); }
                        }
                    }
                    // … and cron fires
                    let res = env.w.apply(&CRON_ACTOR_ADDR, &STORAGE_POWER_ACTOR_ADDR, &TokenAmount::zero(), Method::OnEpochTickEnd as u64, None::<()>);
                    let mut uniq = enrolled_failed.clone();
                    uniq.sort();
                    uniq.dedup();
                    if uniq.len() != enrolled_failed.len() { dup_delete_used = true; }
                    let ids = if enrolled_failed.is_empty() { "-".to_string() } else { enrolled_failed.iter().map(|x| x.to_string()).collect::<Vec<_>>().join(",") };
                    (format!("tick {}", ids), res.ok(), exit_class(res.code).to_string(), if res.panicked { Some(res.message.clone()) } else { None }, String::new())
                }
            };
            let after = project(&env.w);
            rep.ops += 1;
            let opname = line.split(' ').next().unwrap().to_string();
            rep.op(&opname);
            cx.lines.push(line.clone());
            if ok { rep.ops_ok += 1; } else { rep.err(&format!("{}:{}", opname, code)); }
            if let Some(msg) = panicked {
                cx.violation(rep, step, &what, "panic".into(), msg);
                continue 'seqs;
            }
            // ---- independent oracle ----
            if let Some((kind, detail)) = oracle_state(&after, &min, !dup_delete_used) {
                cx.violation(rep, step, &what, kind, detail);
                continue 'seqs;
            }
            if dup_delete_used && after.miner_count != after.claims.len() as i64 {
                let n = "power: a miner failing two cron events in one tick is subtracted twice from miner_count (miner_count != number of claims afterwards); only reachable here by spoofing EnrollCronEvent".to_string();
                if !rep.notes.contains(&n) { rep.notes.push(n); }
            }
            if !ok && after != before {
                cx.violation(rep, step, &what, "failed-message-changed-state".into(), format!("{} -> {}", show(&before), show(&after)));
                continue 'seqs;
            }
            if ok {
                let viol: Option<(String, String)> = match &op {
                    Op::Update { idx, dr, dq } => {
                        let id = env.miners[*idx].id().unwrap();
                        let mut v = None;
                        match (before.claims.get(&id), after.claims.get(&id)) {
                            (Some(b), Some(a)) => {
                                if &(&b.0 + dr) != &a.0 || &(&b.1 + dq) != &a.1 {
                                    v = Some(("claim-delta-wrong".to_string(), format!("miner {} claim {}/{} -> {}/{} for deltas {}/{}", id, b.0, b.1, a.0, a.1, dr, dq)));
                                }
                                if (&b.0 >= &min) != (&a.0 >= &min) {
                                    nontrivial = true;
                                    rep.branch(if &a.0 >= &min { "claim-crossed-up" } else { "claim-crossed-down" });
                                }
                            }
                            (None, _) => v = Some(("update-without-claim-accepted".to_string(), format!("miner {}", id))),
                            (Some(_), None) => v = Some(("claim-delta-wrong".to_string(), format!("claim of miner {} disappeared", id))),
                        }
                        for (k, c) in before.claims.iter() {
                            if *k != id && after.claims.get(k) != Some(c) {
                                v = Some(("claim-delta-wrong".to_string(), format!("claim of miner {} changed by an update of miner {}", k, id)));
                            }
                        }
                        if after.claims.len() != before.claims.len() {
                            v = Some(("claim-delta-wrong".to_string(), "number of claims changed by an update".to_string()));
                        }
                        if (before.above_min < SPEC_MIN_MINERS) != (after.above_min < SPEC_MIN_MINERS) {
                            rep.branch(if after.above_min >= SPEC_MIN_MINERS { "consensus-miners-reached-4" } else { "consensus-miners-fell-below-4" });
                        }
                        v
                    }
                    Op::UpdateX { .. } => Some(("update-from-non-miner-accepted".to_string(), String::new())),
                    Op::Create { deposit } => {
                        let id = env.miners.last().unwrap().id().unwrap();
                        let mut exp = before.claims.clone();
                        let fresh = exp.insert(id, (BigInt::zero(), BigInt::zero())).is_none();
                        if !*deposit {
                            Some(("create-without-deposit-accepted".to_string(), String::new()))
                        } else if !fresh {
                            Some(("create-reused-claim-key".to_string(), format!("miner {}", id)))
                        } else if exp != after.claims {
                            Some(("create-changed-claims".to_string(), format!("{} -> {}", show(&before), show(&after))))
                        } else { None }
                    }
                    Op::Tick { failed, .. } => {
                        let mut exp = before.claims.clone();
                        for idx in failed.iter() { exp.remove(&env.miners[*idx].id().unwrap()); }
                        let e = expect(&after, &min);
                        if exp != after.claims {
                            Some(("cron-delete-wrong".to_string(), format!("failed miners {:?}: {} -> {}", failed.iter().map(|i| env.miners[*i].id().unwrap()).collect::<Vec<_>>(), show(&before), show(&after))))
                        } else if (after.epoch_raw.clone(), after.epoch_qa.clone()) != e.rule {
                            Some(("power-epoch-snapshot-mismatch".to_string(), format!("this_epoch=({},{}) rule=({},{})", after.epoch_raw, after.epoch_qa, e.rule.0, e.rule.1)))
                        } else {
                            if exp.len() != before.claims.len() { rep.branch("claim-deleted-by-cron"); }
                            None
                        }
                    }
                    Op::Meets { id } => {
                        match before.claims.get(id) {
                            None => Some(("meets-consensus-minimum-wrong".to_string(), format!("answer for {} which has no claim", id))),
                            Some((raw, _)) => {
                                let e = expect(&before, &min);
                                let want = raw >= &min || (e.n_above < SPEC_MIN_MINERS && raw.is_positive());
                                let want_s = format!(" {} {}", raw, want as u8);
                                if want_s != extra_out {
                                    Some(("meets-consensus-minimum-wrong".to_string(), format!("miner {}: got{} want{}", id, extra_out, want_s)))
                                } else { None }
                            }
                        }
                    }
                };
                if let Some((kind, detail)) = viol {
                    cx.violation(rep, step, &what, kind, detail);
                    continue 'seqs;
                }
            }
            if let Op::Tick { .. } = op {
                if ok {
                    env.epoch += 1;
                    env.w.vm.set_epoch(env.epoch);
                }
            }
            // ---- Lean model ----
            if let Some(l) = lean.as_mut() {
                let m = l.ask(&line).unwrap();
                let i = if ok { format!("ok{} | {}", extra_out, show(&after)) } else { format!("err | {}", show(&after)) };
                if norm(&m) != i {
                    cx.disagreement(rep, step, &what, &line, i, m);
                    continue 'seqs;
                }
            }
        }
        // reached only when every step agreed (a disagreement skips to the next sequence)
        if lean.is_some() { rep.traces_validated += 1; }
        if nontrivial && seen.insert(hash_lines(&cx.lines)) { rep.distinct_nontrivial += 1; }
        if samples < 2 && nontrivial {
            samples += 1;
            rep.samples.push(json!({"sub": "power", "seq": SEQ_OFFSET + seq, "ops": cx.lines.iter().take(14).collect::<Vec<_>>()}));
        }
    }
}

pub fn run(cfg: &RunCfg) -> Report {
    let mut rep = Report::new("C02", cfg.seed, &cfg.tier);
    run_into(cfg, &mut rep);
    rep
}
