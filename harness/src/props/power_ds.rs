//! C02 (power-actor half) — claims/totals under the consensus-minimum rule: real power actor in the
//! vvm ⇄ Lean `BA.Power` model + independent oracle.  (stub, filled in by the power work item)
use super::RunCfg;
use crate::report::Report;

/// run the power-actor sequences and merge the results into `rep`
pub fn run_into(_cfg: &RunCfg, _rep: &mut Report) {}

pub fn run(cfg: &RunCfg) -> Report {
    let mut rep = Report::new("C02", cfg.seed, &cfg.tier);
    run_into(cfg, &mut rep);
    rep
}
